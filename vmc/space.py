"""State spaces: complete structure space (driver S), constraint-tree space (driver K),
a generic breadth-first explorer with canonical de-duplication, and an independent
closed-form counter used as a completeness check."""
from __future__ import annotations

import collections
import functools
import itertools

from . import shadow as sh

# creation order differs from sort order; all are AFM WORDs, UVL ID_STRICT, no keyword
NAME_POOL = ('Fa', 'Bb', 'Dc', 'Ad', 'Ee', 'Cf', 'Gg', 'Ah', 'Zi', 'Bj', 'Mk', 'Cl')


def cards_for(s, allow_zero_max=True, star=False):
    """All (a, b) with 0 <= a <= b <= s (b >= 1 unless allow_zero_max); star adds b = -1."""
    out = []
    for b in range(0 if allow_zero_max else 1, s + 1):
        for a in range(0, b + 1):
            out.append((a, b))
    if star:
        for a in range(0, s + 1):
            out.append((a, -1))
    return out


# --------------------------------------------------------------------------- shapes
# A shape is a nested tuple: feature = (rel, rel, ...); rel = (child_feature, ...)

@functools.lru_cache(maxsize=None)
def _shapes_feature(n):
    """All feature shapes with exactly n features."""
    if n == 1:
        return ((),)
    return tuple(_rel_seqs(n - 1))


@functools.lru_cache(maxsize=None)
def _rel_seqs(m):
    """All non-empty ordered sequences of relations whose children subtrees total m features."""
    out = []
    for s in range(1, m + 1):
        for kids in _children(s):
            if s == m:
                out.append((kids,))
            else:
                for rest in _rel_seqs(m - s):
                    out.append((kids,) + rest)
    return tuple(out)


@functools.lru_cache(maxsize=None)
def _children(s):
    """All non-empty ordered sequences of child subtrees totalling s features."""
    out = []
    for c in range(1, s + 1):
        for first in _shapes_feature(c):
            if c == s:
                out.append((first,))
            else:
                for rest in _children(s - c):
                    out.append((first,) + rest)
    return tuple(out)


def shapes(n):
    return _shapes_feature(n)


def _shape_rels(shape):
    """Relation sizes of a shape in preorder."""
    out = []

    def rec(f):
        for rel in f:
            out.append(len(rel))
            for k in rel:
                rec(k)
    rec(shape)
    return out


def decorate(shape, cards, pool=NAME_POOL):
    """shape + per-relation cardinalities (preorder) -> SModel with pool names in preorder."""
    names = iter(pool)
    cards = iter(cards)

    def rec(f):
        name = next(names)
        rels = []
        for rel in f:
            a, b = next(cards)
            rels.append((a, b, None, rel))
        # children are named after the parent, in preorder: build after card assignment order
        out_rels = []
        for (a, b, _x, rel) in rels:
            out_rels.append((a, b, tuple(rec(k) for k in rel)))
        return sh.F(name, out_rels)
    # NB: cardinalities are consumed per feature before descending, names in preorder.
    return sh.M(rec(shape))


def structures(n, allow_zero_max=True, star=False, pool=NAME_POOL):
    """Every structure state with exactly n features (all cardinalities 0<=a<=b<=s)."""
    for shape in shapes(n):
        sizes = _card_order_sizes(shape)
        for cards in itertools.product(*[cards_for(s, allow_zero_max, star) for s in sizes]):
            yield decorate(shape, cards, pool)


def _card_order_sizes(shape):
    """Relation sizes in the order `decorate` consumes cardinalities."""
    out = []

    def rec(f):
        for rel in f:
            out.append(len(rel))
        for rel in f:
            for k in rel:
                rec(k)
    rec(shape)
    return out


def structures_upto(n, **kw):
    for k in range(1, n + 1):
        yield from structures(k, **kw)


# --------------------------------------------------------------------------- closed-form count

def count_structures(n, allow_zero_max=True, star=False):
    """Independent recurrence for the number of structure states with exactly n features.
    Written against the definition (ordered trees x ordered relation partition x cards),
    not against the generator above."""
    def ncards(s):
        c = (s + 1) * (s + 2) // 2 if allow_zero_max else s * (s + 1) // 2 + s
        # a<=b<=s, b>=1 : sum_{b=1..s}(b+1) = s(s+1)/2 + s
        if star:
            c += s + 1
        return c

    @functools.lru_cache(maxsize=None)
    def feat(k):  # trees with k features
        return 1 if k == 1 else relseq(k - 1)

    @functools.lru_cache(maxsize=None)
    def forest(m, j):  # ordered sequences of j trees with m features in total
        if j == 0:
            return 1 if m == 0 else 0
        return sum(feat(c) * forest(m - c, j - 1) for c in range(1, m - (j - 1) + 1))

    @functools.lru_cache(maxsize=None)
    def relseq(m):  # non-empty sequences of relations covering m features
        total = 0
        for s in range(1, m + 1):
            one = sum(ncards(j) * forest(s, j) for j in range(1, s + 1))
            total += one * (1 if s == m else relseq(m - s))
        return total
    return feat(n)


# --------------------------------------------------------------------------- BFS explorer

def bfs(init, successors, canon, limit=None):
    """Generic explicit-state BFS.  Returns (states: dict canon->state, transitions)."""
    seen = {canon(init): init}
    frontier = collections.deque([init])
    transitions = 0
    while frontier:
        st = frontier.popleft()
        for nxt in successors(st):
            transitions += 1
            k = canon(nxt)
            if k not in seen:
                seen[k] = nxt
                frontier.append(nxt)
                if limit is not None and len(seen) > limit:
                    raise RuntimeError('bfs limit exceeded')
    return seen, transitions


def structure_successors(nmax, allow_zero_max=True, star=False, pool=NAME_POOL):
    """Transitions of the structure space (DESIGN 2.1): add_rel, add_child, set_card.
    States are SModels; names come from the pool in *creation* order, so the BFS space is
    compared with `structures` after renaming to preorder (see `rename_preorder`)."""
    def succ(m):
        feats = sh.features(m)
        n = len(feats)
        root = m[0]
        out = []
        if n < nmax:
            newname = pool[n]
            for path, f in sh._paths(root):
                # add_rel(p, (a,b)) with one new leaf child
                for (a, b) in cards_for(1, allow_zero_max, star):
                    def fn(g, a=a, b=b):
                        return (g[0], g[1] + ((a, b, (sh.F(newname),)),), g[2], g[3], g[4], g[5])
                    out.append((sh._replace_feature(root, list(path), fn), ()))
                # add_child(last relation of p): cardinality unchanged
                if f[1]:
                    def fn2(g):
                        a, b, kids = g[1][-1]
                        return (g[0], g[1][:-1] + ((a, b, kids + (sh.F(newname),)),), g[2], g[3], g[4], g[5])
                    out.append((sh._replace_feature(root, list(path), fn2), ()))
        # set_card(r, (a,b))
        for path, f in sh._paths(root):
            for ri, (a0, b0, kids) in enumerate(f[1]):
                for (a, b) in cards_for(len(kids), allow_zero_max, star):
                    if (a, b) != (a0, b0):
                        def fn3(g, ri=ri, a=a, b=b):
                            return (g[0], g[1][:ri] + ((a, b, g[1][ri][2]),) + g[1][ri + 1:], g[2], g[3], g[4], g[5])
                        out.append((sh._replace_feature(root, list(path), fn3), ()))
        return out
    return succ


def rename_preorder(m, pool=NAME_POOL):
    it = iter(pool)

    def rec(f):
        name = next(it)
        return (name, tuple((a, b, tuple(rec(k) for k in kids)) for (a, b, kids) in f[1]),
                f[2], f[3], f[4], f[5])
    return (rec(m[0]), m[1])


# --------------------------------------------------------------------------- constraint trees

def trees(depth, names, ops=sh.LOGICAL):
    """All logical trees of depth <= `depth` over `names` (NOT unary, others binary)."""
    level = list(names)
    allt = list(level)
    prev_all = list(level)
    for _d in range(depth):
        new = []
        prev_set = prev_all
        # trees of depth exactly d+1: at least one child of depth exactly d (== in `level`)
        lvl_set = set(level)
        for op in ops:
            if op == 'NOT':
                for t in level:
                    new.append(('NOT', t, None))
            else:
                for left in prev_set:
                    for right in prev_set:
                        if left in lvl_set or right in lvl_set:
                            new.append((op, left, right))
        level = new
        prev_all = prev_all + new
        allt.extend(new)
    return allt


def count_trees(depth, nnames, nbin=7, nun=1):
    c = nnames
    for _ in range(depth):
        c = nnames + nun * c + nbin * c * c
    return c


def bfs_crosscheck(n):
    """Explore the structure space by BFS over the build transitions (add_rel, add_child,
    set_card) with canonical de-duplication and require that the reached state set equals the
    set produced by the recursive generator and the closed-form count.  Returns
    (states, transitions)."""
    init = sh.M(sh.F(NAME_POOL[0]))
    seen, transitions = bfs(init, structure_successors(n), rename_preorder)
    ref = set(structures_upto(n))
    if set(seen) != ref or len(ref) != sum(count_structures(k) for k in range(1, n + 1)):
        raise AssertionError('structure space enumerations disagree at n=%d: bfs=%d generator=%d' % (n, len(seen), len(ref)))
    return len(seen), transitions
