"""Reference semantics of feature models (brute force) - the independent oracle."""
from __future__ import annotations

import functools
import itertools

from . import shadow as sh


class Uninterpretable(Exception):
    pass


class deep_recursion:
    """Context manager for the reference interpreters only: they are recursive over expression
    depth, which the library's writers may nest arbitrarily; the limit of the code under test is
    left as it is outside the block."""

    def __init__(self, limit=40000):
        self.limit = limit

    def __enter__(self):
        import sys
        self.old = sys.getrecursionlimit()
        sys.setrecursionlimit(max(self.old, self.limit))

    def __exit__(self, *exc):
        import sys
        sys.setrecursionlimit(self.old)
        return False


def ev(tree, sel):
    """Evaluate a logical constraint tree under selection `sel` (set of names)."""
    if isinstance(tree, str):
        return tree in sel
    if not isinstance(tree, tuple):
        raise Uninterpretable('non-boolean term %r' % (tree,))
    op, left, right = tree
    if op == 'NOT':
        return not ev(left, sel)
    a = ev(left, sel)
    b = ev(right, sel)
    if op == 'AND':
        return a and b
    if op == 'OR':
        return a or b
    if op == 'XOR':
        return a != b
    if op in ('IMPLIES', 'REQUIRES'):
        return (not a) or b
    if op == 'EQUIVALENCE':
        return a == b
    if op == 'EXCLUDES':
        return not (a and b)
    raise Uninterpretable('operator %r' % (op,))


def truth_table(tree, names):
    """Tuple of booleans over all assignments of `names` (in the given order)."""
    out = []
    for bits in itertools.product((False, True), repeat=len(names)):
        sel = {n for n, bit in zip(names, bits) if bit}
        out.append(ev(tree, sel))
    return tuple(out)


def equivalent(t1, t2, names=None):
    if names is None:
        names = sorted(set(sh.tree_names(t1)) | set(sh.tree_names(t2)))
    return truth_table(t1, names) == truth_table(t2, names)


def tree_configs(model):
    """All valid selections (frozensets of names) of the feature tree alone."""
    feats = sh.features(model)
    names = [f[0] for f in feats]
    pm = sh.parent_map(model)
    rels = sh.relations(model)
    out = []
    rootname = model[0][0]
    others = [n for n in names if n != rootname]
    for bits in itertools.product((False, True), repeat=len(others)):
        sel = {rootname}
        sel.update(n for n, bit in zip(others, bits) if bit)
        ok = True
        for n in sel:
            p = pm[n]
            if p is not None and p not in sel:
                ok = False
                break
        if not ok:
            continue
        for (p, a, b, kids) in rels:
            k = sum(1 for c in kids if c in sel)
            if p in sel:
                if k < a or (b != -1 and k > b):
                    ok = False
                    break
        if ok:
            out.append(frozenset(sel))
    return out


def configs(model):
    """All valid configurations: tree rules + logical constraints."""
    out = []
    for sel in tree_configs(model):
        if all(ev(t, sel) for _n, t in model[1]):
            out.append(sel)
    return out


def kind(a, b, s):
    """Reference classification of a relation by cardinality and number of children."""
    if s == 1:
        if (a, b) == (1, 1):
            return 'mandatory'
        if (a, b) == (0, 1):
            return 'optional'
        return None
    if (a, b) == (1, 1):
        return 'alternative'
    if (a, b) == (1, s):
        return 'or'
    if (a, b) == (0, 1):
        return 'mutex'
    return 'cardinality'


def core_structural(model):
    """Always-selected features of a tree without constraints, structurally: the root, and every
    child of an always-selected feature whose relation needs all its children
    (min >= number of children).  Cross-checked against brute force on every small state."""
    out = []
    stack = [model[0]]
    while stack:
        f = stack.pop()
        out.append(f[0])
        for (a, _b, kids) in f[1]:
            if a >= len(kids):
                stack.extend(kids)
    return frozenset(out)


def count_closed_form(model):
    """Exact number of tree configurations by a product/sum formula with elementary
    symmetric polynomials (second, independent reference for the counting oracle)."""
    def cnt(f):
        total = 1
        for (a, b, kids) in f[1]:
            cs = [cnt(k) for k in kids]
            s = len(cs)
            # e_k = elementary symmetric sums of the children's counts
            e = [1] + [0] * s
            for c in cs:
                for k in range(s, 0, -1):
                    e[k] += e[k - 1] * c
            hi = s if b == -1 else min(b, s)
            total *= sum(e[k] for k in range(a, hi + 1))
        return total
    return cnt(model[0])


@functools.lru_cache(maxsize=200000)
def _cached_tree_configs(model_root):
    return tuple(tree_configs((model_root, ())))


def tree_configs_cached(model):
    return _cached_tree_configs(model[0])


def selftest():
    F, R, M = sh.F, sh.R, sh.M
    # root with mandatory A, optional B
    m = M(F('r', [R(1, 1, [F('A')]), R(0, 1, [F('B')])]))
    cs = {frozenset(c) for c in tree_configs(m)}
    assert cs == {frozenset({'r', 'A'}), frozenset({'r', 'A', 'B'})}, cs
    # alternative of 3
    m = M(F('r', [R(1, 1, [F('A'), F('B'), F('C')])]))
    assert len(tree_configs(m)) == 3 == count_closed_form(m)
    # or of 3 -> 7 ; mutex of 3 -> 4 ; [2,3] of 3 -> 4 ; [0,0] of 1 -> 1
    for (a, b, n, want) in ((1, 3, 3, 7), (0, 1, 3, 4), (2, 3, 3, 4), (0, 0, 1, 1), (2, -1, 3, 4)):
        m = M(F('r', [R(a, b, [F(x) for x in 'ABC'[:n]])]))
        assert len(tree_configs(m)) == want == count_closed_form(m), (a, b, n)
    # nested: r -[0,1]- A -[1,2]-{B, C}:  1 + 3
    m = M(F('r', [R(0, 1, [F('A', [R(1, 2, [F('B'), F('C')])])])]))
    assert len(tree_configs(m)) == 4 == count_closed_form(m)
    # constraints
    m = M(F('r', [R(0, 1, [F('A')]), R(0, 1, [F('B')])]), [('c', ('EXCLUDES', 'A', 'B'))])
    assert len(configs(m)) == 3
    m = M(F('r', [R(0, 1, [F('A')]), R(0, 1, [F('B')])]), [('c', ('XOR', 'A', 'B'))])
    assert len(configs(m)) == 2
    m = M(F('r', [R(0, 1, [F('A')]), R(0, 1, [F('B')])]), [('c', ('REQUIRES', 'A', 'B'))])
    assert len(configs(m)) == 3
    assert equivalent(('IMPLIES', 'a', 'b'), ('OR', ('NOT', 'a', None), 'b'))
    assert not equivalent(('XOR', 'a', 'b'), ('EXCLUDES', 'a', 'b'))
    assert kind(1, 2, 2) == 'or' and kind(1, 1, 2) == 'alternative' and kind(0, 0, 1) is None
    assert kind(0, 2, 2) == 'cardinality' and kind(2, 2, 2) == 'cardinality' and kind(0, 1, 2) == 'mutex'
