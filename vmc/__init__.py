"""vmc - bounded-exhaustive explicit-state checking of flamapy/fm_metamodel.

See /verif/DESIGN.md.  Everything in this package is deterministic: no random
sampling decides anything.
"""
