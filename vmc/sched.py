"""Overlapping executions with one preemption (iterative context bounding, bound 1).

The library is sequential code, but nothing stops a caller from analysing two models on two
threads.  With one preemption and the second execution running to completion at the preemption
point, every such schedule has the form  A[0:k] ; B ; A[k:]  for a line k of A inside the library.
That needs no real threads: B is run from the trace callback of A when A reaches its k-th line
event in a file of the library (tracing is suspended inside the callback, so B runs untraced), which
is exactly what a second thread holding the interpreter would do to the state both can see
(module-level variables, class attributes, default arguments).  All k are enumerated.
"""
from __future__ import annotations

import os
import sys

import flamapy.metamodels.fm_metamodel as _lib

LIB = os.path.realpath(list(_lib.__path__)[0]) + os.sep


def _is_lib(frame):
    fn = frame.f_code.co_filename
    return fn.startswith(LIB) or os.path.realpath(fn).startswith(LIB)


def count_points(fa):
    """Number of line events of fa() inside the library, and fa's result."""
    n = [0]

    def tracer(frame, event, arg):
        if not _is_lib(frame):
            return None
        if event == 'line':
            n[0] += 1
        return tracer
    old = sys.gettrace()
    sys.settrace(tracer)
    try:
        res = fa()
    finally:
        sys.settrace(old)
    return n[0], res


def run_preempted(fa, fb, k):
    """Run fa(); when it reaches its k-th library line event, run fb() to completion there.
    Returns (result of fa, ('ok', result of fb) | ('exc', exception) | None if k was never reached)."""
    st = {'n': 0, 'rb': None}

    def tracer(frame, event, arg):
        if not _is_lib(frame):
            return None
        if event == 'line':
            st['n'] += 1
            if st['n'] == k and st['rb'] is None:
                try:
                    st['rb'] = ('ok', fb())
                except Exception as exc:  # noqa: BLE001
                    st['rb'] = ('exc', exc)
        return tracer
    old = sys.gettrace()
    sys.settrace(tracer)
    try:
        ra = fa()
    finally:
        sys.settrace(old)
    return ra, st['rb']


MAX_SCHEDULES = 200


def explore(make_a, make_b):
    """All schedules A[0:k] ; B ; A[k:] when A has at most MAX_SCHEDULES line events inside the library,
    otherwise MAX_SCHEDULES evenly spaced ones.  make_a / make_b return fresh thunks (fresh objects)
    each time.  Yields (k, n, result_a, outcome_b)."""
    n, _res = count_points(make_a())
    stride = max(1, -(-n // MAX_SCHEDULES))
    for k in range(1, n + 1, stride):
        ra, rb = run_preempted(make_a(), make_b(), k)
        yield k, n, ra, rb
