"""Runner: parallel exhaustive evaluation of a property's case space, attribution of
failures to minimal witnesses, known-finding matching, evidence and replay files."""
from __future__ import annotations

import hashlib
import importlib
import json
import multiprocessing as mp
import os
import re
import shutil
import sys
import tempfile
import time
import traceback

VERIF = os.path.dirname(os.path.dirname(os.path.abspath(__file__)))
KNOWN_FILE = os.path.join(VERIF, 'KNOWN_FINDINGS.txt')
MAX_UNKNOWN = 6          # stop exploring after this many distinct unknown witnesses
MAX_UNKNOWN_FAILS = 40   # ... or after this many failing cases attributed to unknown witnesses
MIN_BUDGET = 300         # check evaluations per minimisation
MIN_TOTAL_SECONDS = 90.0  # ... seconds of exhaustive minimisation per worker process in one run
GREEDY_BUDGET = 1500     # evaluations of the greedy fallback descent
GREEDY_SECONDS = 8.0
FULL_MINIMISATIONS_PER_CLAUSE = 4
MIN_SECONDS = 5.0        # wall time per minimisation
CASE_SECONDS = 60.0      # wall time of one case in a worker (the slowest case on the clean tree takes a few seconds)
MIN_EVAL_SECONDS = 20.0  # wall time of one evaluation during minimisation
CHUNK_SECONDS = 45.0     # wall time after which a worker that has seen failures returns its chunk unfinished
CHUNK_WITNESS_CAP = 8    # a worker stops a chunk once it holds this many distinct witnesses

# ----------------------------------------------------------------------------- counters
_COUNT = {'transitions': 0, 'validated': 0}
_TMP = {'dir': None}


def tick(n=1):
    _COUNT['transitions'] += n


def validated(n=1):
    _COUNT['validated'] += n


_TRACE = {'on': False, 'items': []}


def note(value):
    """Record something the code under test produced for the current case (a written text, an
    operation result).  Only the history driver reads it: the same case judged before and after a
    prefix must produce the same trace."""
    if _TRACE['on']:
        if isinstance(value, bytes):
            h = hashlib.sha1(value).hexdigest()
        else:
            h = hashlib.sha1(repr(value).encode('utf8', 'backslashreplace')).hexdigest()
        _TRACE['items'].append(h)


def trace_begin():
    _TRACE['on'] = True
    _TRACE['items'] = []


def trace_end():
    _TRACE['on'] = False
    items, _TRACE['items'] = _TRACE['items'], []
    return hashlib.sha1('|'.join(items).encode()).hexdigest() if items else ''


def tmpdir():
    if _TMP['dir'] is None:
        base = '/dev/shm' if os.path.isdir('/dev/shm') and os.access('/dev/shm', os.W_OK) else None
        _TMP['dir'] = tempfile.mkdtemp(prefix='vmc_', dir=base)
    return _TMP['dir']


def tmppath(name):
    if _TMP['dir'] is not None and not os.path.isdir(_TMP['dir']):
        os.makedirs(_TMP['dir'], exist_ok=True)      # scratch directory removed from outside during a long run
    if _TMP.get('broken'):
        # history driver 'unwritable': every output path of the case lies in a directory that does not exist
        return os.path.join(tmpdir(), 'no_such_dir_%d' % os.getpid(), name)
    return os.path.join(tmpdir(), '%d_%s' % (os.getpid(), name))


def cleanup_tmp():
    if _TMP['dir'] and os.path.isdir(_TMP['dir']):
        shutil.rmtree(_TMP['dir'], ignore_errors=True)
    _TMP['dir'] = None


# ----------------------------------------------------------------------------- helpers

def tuplify(x):
    if isinstance(x, list):
        return tuple(tuplify(y) for y in x)
    if isinstance(x, dict):
        return {k: tuplify(v) for k, v in x.items()}
    return x


def case_key(case):
    return hashlib.sha1(repr(case).encode('utf8', 'backslashreplace')).hexdigest()


_W = {}


class Fail:
    __slots__ = ('clause', 'detail')

    def __init__(self, clause, detail=None):
        self.clause = clause
        self.detail = detail

    def __repr__(self):
        return 'Fail(%s, %r)' % (self.clause, self.detail)


def load_module(pid):
    return importlib.import_module('vmc.props.%s' % pid.lower())


def load_prop(pid):
    """The property module plus the library-wide depth-2 histories (vmc.hist)."""
    from . import hist
    return hist.HistProp(load_module(pid))


class CaseTimeout(BaseException):      # not an Exception: the oracles' `except Exception` around library calls must not swallow it
    pass


def _on_alarm(_signum, _frame):
    raise CaseTimeout()


def safe_check(prop, case, seconds=None):
    """Run prop.check under a wall-clock limit (workers only; SIGALRM).  An exception escaping the
    oracle itself is a machinery error; a timeout means the code under test has become pathologically
    slow and is reported to the caller as CaseTimeout."""
    import signal
    if seconds is None or not _W.get('in_worker'):
        return prop.check(case)
    old = signal.signal(signal.SIGALRM, _on_alarm)
    signal.setitimer(signal.ITIMER_REAL, seconds)
    try:
        return prop.check(case)
    finally:
        signal.setitimer(signal.ITIMER_REAL, 0)
        signal.signal(signal.SIGALRM, old)


# ----------------------------------------------------------------------------- known findings

def load_known():
    known = {}
    fixed = []
    if os.path.exists(KNOWN_FILE):
        for line in open(KNOWN_FILE, encoding='utf8'):
            line = line.rstrip('\n')
            m = re.match(r'^known: property=(\S+) clause=(\S+) witness=(.*?) -- (.*)$', line)
            if m:
                known[(m.group(1), m.group(2), m.group(3))] = m.group(4)
            elif line.startswith('fixed:'):
                fixed.append(line)
    return known, fixed


# ----------------------------------------------------------------------------- minimisation

_MIN_SPENT = [0.0]        # seconds spent minimising in this worker process
_MIN_COUNT = {}           # clause -> failing cases minimised so far in this worker


def _clauses_of(prop, case, memo, counter):
    k = case_key(case)
    if k not in memo:
        counter[0] += 1
        try:
            memo[k] = frozenset(f.clause for f in safe_check(prop, case, MIN_EVAL_SECONDS))
        except (Exception, CaseTimeout):  # noqa: BLE001  (oracle cannot judge the reduced case / too slow)
            memo[k] = frozenset()
    return memo[k]


def minimise(prop, case, clause, memo, budget=MIN_BUDGET):
    """All minimal witnesses reachable from `case` through failing one-step reductions (same
    clause).  memo: key -> frozenset of failing clauses.  When the budget (evaluations, seconds per
    case, seconds per worker) runs out, a greedy single-path descent from the original case is used
    instead, so that a failing case is never reported un-minimised merely because many cases fail."""
    reduce_fn = getattr(prop, 'reduce', None)
    if reduce_fn is None:
        return [case]
    t0 = time.time()
    out = {}
    stack = [case]
    visited = set()
    counter = [0]
    _MIN_COUNT[clause] = _MIN_COUNT.get(clause, 0) + 1
    # full exploration for the first failing cases of a clause; afterwards (or when the worker has
    # already spent its budget) only the cheap greedy descent
    exhausted = _MIN_SPENT[0] > MIN_TOTAL_SECONDS or _MIN_COUNT[clause] > FULL_MINIMISATIONS_PER_CLAUSE
    while stack and not exhausted:
        cur = stack.pop()
        k = case_key(cur)
        if k in visited:
            continue
        visited.add(k)
        failing_children = []
        for red in reduce_fn(cur):
            if counter[0] >= budget or time.time() - t0 > MIN_SECONDS:
                exhausted = True
                break
            if clause in _clauses_of(prop, red, memo, counter):
                failing_children.append(red)
        if exhausted:
            break
        if failing_children:
            stack.extend(failing_children)
        else:
            out[k] = cur
    if exhausted:
        out = {}
        cur = case
        counter = [0]
        t1 = time.time()
        while True:
            nxt = None
            for red in reduce_fn(cur):
                if counter[0] >= GREEDY_BUDGET or time.time() - t1 > GREEDY_SECONDS:
                    break
                if clause in _clauses_of(prop, red, memo, counter):
                    nxt = red
                    break
            if nxt is None:
                break
            cur = nxt
        out[case_key(cur)] = cur
    _MIN_SPENT[0] += time.time() - t0
    return list(out.values())


# ----------------------------------------------------------------------------- worker

def _worker_init(pid, repo):
    import logging
    logging.disable(logging.CRITICAL)
    sys.stderr = open(os.devnull, 'w')     # ANTLR console listener / XMLReader chatter
    _W['prop'] = load_prop(pid)
    _W['memo'] = {}
    _W['in_worker'] = True
    init = getattr(_W['prop'], 'worker_init', None)
    if init:
        init()


def _run_chunk(chunk):
    prop = _W['prop']
    memo = _W['memo']
    t0 = dict(_COUNT)
    res = {'n': 0, 'keys': [], 'nontrivial': [], 'fails': [], 'outcomes': {}, 'error': None,
           'sample': None}
    nontrivial = getattr(prop, 'nontrivial', None)
    outcome = getattr(prop, 'outcome', None)
    t_chunk = time.time()
    try:
        for ci, case in enumerate(chunk):
            if time.time() - t_chunk > CHUNK_SECONDS and res['fails']:
                # the code under test has become pathologically slow (e.g. state that grows with every
                # call): hand back what was found so far instead of blocking the run
                res['incomplete'] = len(chunk) - ci
                break
            k = case_key(case)
            res['n'] += 1
            res['keys'].append(k)
            if res['sample'] is None:
                res['sample'] = case
            try:
                fails = safe_check(prop, case, CASE_SECONDS)
            except CaseTimeout:
                res['incomplete'] = len(chunk) - ci
                res['timeouts'] = res.get('timeouts', 0) + 1
                break
            memo[k] = frozenset(f.clause for f in fails)
            if nontrivial is None or nontrivial(case):
                res['nontrivial'].append(k)
            if outcome is not None:
                o = outcome(case)
                res['outcomes'][o] = res['outcomes'].get(o, 0) + 1
            if len(set((c, w) for (c, _x, w, _d, _o) in res['fails'])) >= CHUNK_WITNESS_CAP:
                res['stopped_early'] = True
                break
            done = set()
            for f in fails:
                if f.clause in done:
                    continue
                done.add(f.clause)
                for w in minimise(prop, case, f.clause, memo):
                    try:
                        wf = [x for x in safe_check(prop, w, MIN_EVAL_SECONDS) if x.clause == f.clause]
                    except CaseTimeout:
                        wf = []
                    norm = getattr(prop, 'normalize', None)
                    if norm is not None:
                        w2 = norm(w)
                        if w2 != w:
                            try:
                                wf2 = [x for x in safe_check(prop, w2, MIN_EVAL_SECONDS) if x.clause == f.clause]
                            except CaseTimeout:
                                wf2 = []
                            if wf2:
                                w, wf = w2, wf2
                    detail = wf[0].detail if wf else f.detail
                    res['fails'].append((f.clause, w, prop.describe(w), detail, prop.describe(case)))
    except Exception:  # noqa: BLE001
        res['error'] = traceback.format_exc()
    res['transitions'] = _COUNT['transitions'] - t0['transitions']
    res['validated'] = _COUNT['validated'] - t0['validated']
    return res


# share of a chunk taken by one case of an expensive kind (1 = a chunk of its own), so that the long cases
# spread over the workers instead of queueing up in one
HEAVY = {'XH': 1.0, 'WG': 1.0, 'XP': 1 / 6.0, 'XT': 0.1, 'ST': 0.02, 'A': 0.1, 'DC': 0.25, 'WIDE': 0.25, 'B': 0.25, 'MB': 0.25,
         'HUGE': 0.5, 'CL': 0.25, 'CP': 0.25, 'CN': 0.25, 'ENV': 0.25, 'RL': 0.25}


def _chunks(it, size, warmup=32, warmup_size=6):
    """Chunks of `size` cases; the first `warmup` chunks are small so that the first results (and
    with them an early stop on a badly broken tree) arrive quickly.  History cases (vmc.hist) run
    many checks each: a batch history is a chunk of its own, ill-formed-variant histories go by 6."""
    buf = []
    n = 0
    weight = 0.0
    for x in it:
        buf.append(x)
        limit = warmup_size if n < warmup else size
        weight += limit * HEAVY.get(x[0], 0) or 1
        if weight >= limit:
            yield buf
            buf = []
            weight = 0.0
            n += 1
    if buf:
        yield buf


# ----------------------------------------------------------------------------- main driver

TIER = {'tier': 'quick'}


def run_property(pid, tier, seed, jobs=None, time_cap=None):
    t_start = time.time()
    TIER['tier'] = tier
    if time_cap is None:
        time_cap = float(os.environ.get('VERIF_TIME_CAP') or (1500 if tier == 'quick' else 4 * 3600))
    prop = load_prop(pid)
    known, _fixed = load_known()
    jobs = jobs or min(16, os.cpu_count() or 4)
    plan = prop.plan(tier) if hasattr(prop, 'plan') else {}
    chunk_size = plan.get('chunk', 200)
    if hasattr(prop, 'selftest'):
        prop.selftest()

    agg = {'n': 0, 'keys': set(), 'nontrivial': set(), 'transitions': 0, 'validated': 0,
           'outcomes': {}, 'samples': [], 'clause_fail_counts': {}}
    witnesses = {}      # (clause, witness_str) -> (case, detail, example_origin)
    capped = None
    error = None

    tmpdir()   # created in the parent; workers inherit it and the parent removes it
    ctx = mp.get_context('fork')
    pool = ctx.Pool(jobs, initializer=_worker_init, initargs=(pid, None))
    try:
        from . import hist
        prop.picks_async = pool.map_async(hist.picks_of, [(p, tier) for p in hist.ALL_PIDS], chunksize=1)
        gen = prop.cases(tier, seed)
        results = pool.imap_unordered(_run_chunk, _chunks(gen, chunk_size))
        while True:
            try:
                res = results.next(timeout=5)
            except mp.TimeoutError:
                if time_cap and time.time() - t_start > time_cap:
                    capped = 'time cap %ss reached while waiting for workers' % time_cap
                    break
                continue
            except StopIteration:
                break
            if res['error']:
                error = res['error']
                break
            agg['n'] += res['n']
            if res.get('incomplete'):
                agg['incomplete'] = agg.get('incomplete', 0) + res['incomplete']
            agg['keys'].update(res['keys'])
            agg['nontrivial'].update(res['nontrivial'])
            agg['transitions'] += res['transitions']
            agg['validated'] += res['validated']
            for o, c in res['outcomes'].items():
                agg['outcomes'][o] = agg['outcomes'].get(o, 0) + c
            if res['sample'] is not None and len(agg['samples']) < 400:
                agg['samples'].append(res['sample'])
            for (clause, w, wstr, detail, origin) in res['fails']:
                agg['clause_fail_counts'][clause] = agg['clause_fail_counts'].get(clause, 0) + 1
                witnesses.setdefault((clause, wstr), (w, detail, origin))
            unknown = [k for k in witnesses if (pid, k[0], k[1]) not in known]
            if len(unknown) >= MAX_UNKNOWN:
                capped = 'stopped early after %d distinct unknown witnesses' % len(unknown)
                break
            n_unknown_fails = sum(1 for (cl, w, ws, _d, _o) in res['fails'] if (pid, cl, ws) not in known)
            agg['unknown_fails'] = agg.get('unknown_fails', 0) + n_unknown_fails
            if unknown and agg['unknown_fails'] >= MAX_UNKNOWN_FAILS:
                capped = 'stopped early after %d failing cases with %d distinct unknown witnesses' % (agg['unknown_fails'], len(unknown))
                break
            if time_cap and time.time() - t_start > time_cap:
                capped = 'time cap %ss reached' % time_cap
                break
    finally:
        prop.stopping = True
        pool.terminate()
        pool.join()
        cleanup_tmp()

    if error:
        sys.stdout.write('MACHINERY-ERROR property=%s\n%s\n' % (pid, error))
        return 2

    # ---- verdicts
    violations = []
    known_hits = []
    for (clause, wstr), (w, detail, origin) in sorted(witnesses.items(), key=lambda kv: kv[0]):
        kk = (pid, clause, wstr)
        if kk in known:
            known_hits.append((clause, wstr, known[kk]))
        else:
            violations.append((clause, wstr, w, detail, origin))

    # determinism gate + replay files
    real_stderr = sys.stderr
    sys.stderr = open(os.devnull, 'w')
    replay_paths = []
    for (clause, wstr, w, detail, origin) in violations:
        r1 = sorted(f.clause for f in safe_check(prop, w))
        r2 = sorted(f.clause for f in safe_check(prop, w))
        if r1 != r2:
            # two consecutive evaluations of the same case on fresh objects disagree: the library
            # keeps state between calls (the oracles are pure functions of the case).
            detail = {'seen_in_worker': detail, 'note': 'two consecutive evaluations in one process gave different '
                      'verdicts (%s then %s): the result depends on earlier executions in the same process' % (r1, r2)}
        elif clause not in r1:
            # Reproducible twice here but different from what the worker saw: the verdict depends on
            # what the worker process had executed before (state kept between calls by the code
            # under test - a cache, a shared default object).  That is a violation in its own right.
            detail = {'seen_in_worker': detail, 'note': 'not reproducible on a fresh process: the result depends on '
                      'earlier executions in the same process (shared state in the library); first seen on ' + str(origin)}
        replay_paths.append(write_replay(pid, clause, w, wstr, detail, origin))
    sys.stderr = real_stderr
    cleanup_tmp()

    for (clause, wstr, text) in known_hits:
        sys.stdout.write('KNOWN-FINDING: property=%s clause=%s witness=%s -- %s\n' % (pid, clause, wstr, text))
    for p in replay_paths:
        sys.stdout.write('VIOLATION property=%s replay=%s\n' % (pid, p))

    # ---- evidence
    wall = time.time() - t_start
    rule = plan.get('rule', '')
    samples = []
    step = max(1, len(agg['samples']) // 5)
    for c in agg['samples'][::step][:6]:
        samples.append(prop.describe(c)[:400])
    coverage = {
        'states': len(agg['keys']),
        'transitions': agg['transitions'],
        'traces_validated_against_impl': agg['validated'],
        'samples': samples or ['(none)'],
        'evaluations': agg['n'],
        'distinct_nontrivial': len(agg['nontrivial']),
        'rule': rule,
        'exhaustive': capped is None,
        'bounds': plan.get('bounds', ''),
        'distinct_outcomes': len(agg['outcomes']),
        'outcome_histogram': dict(sorted(agg['outcomes'].items(), key=lambda kv: -kv[1])[:12]),
        'failing_states_by_clause': agg['clause_fail_counts'],
        'known_finding_hits': ['%s %s' % (c, w) for (c, w, _t) in known_hits],
        'workers': jobs,
    }
    if agg.get('incomplete'):
        capped = (capped + '; ' if capped else '') + '%d cases skipped because chunks exceeded %ss' % (agg['incomplete'], CHUNK_SECONDS)
        coverage['exhaustive'] = False
    if capped:
        coverage['cap'] = capped
    extra = plan.get('coverage_extra')
    if extra:
        coverage.update(extra)
    evidence = {
        'property_id': pid,
        'tier': tier,
        'seed': int(seed),
        'level': 'model_checking',
        'coverage': coverage,
        'assumptions': plan.get('assumptions', []),
        'wall_s': round(wall, 2),
        'violations': len(violations),
    }
    evdir = os.environ.get('VERIF_EVIDENCE_DIR') or os.path.join(VERIF, 'evidence')
    os.makedirs(evdir, exist_ok=True)
    with open(os.path.join(evdir, '%s.json' % pid), 'w', encoding='utf8') as fh:
        json.dump(evidence, fh, indent=1, ensure_ascii=False, default=str)
    sys.stdout.write('%s tier=%s states=%d transitions=%d validated=%d nontrivial=%d known_hits=%d '
                     'violations=%d wall=%.1fs%s\n'
                     % (pid, tier, len(agg['keys']), agg['transitions'], agg['validated'],
                        len(agg['nontrivial']), len(known_hits), len(violations), wall,
                        ' CAPPED: ' + capped if capped else ''))
    return 1 if violations else 0


def write_replay(pid, clause, case, wstr, detail, origin):
    d = os.path.join(os.environ.get('VERIF_REPLAY_DIR') or os.path.join(VERIF, 'replays'), pid)
    os.makedirs(d, exist_ok=True)
    h = hashlib.sha1((clause + '|' + wstr).encode('utf8', 'backslashreplace')).hexdigest()[:10]
    safe_clause = re.sub(r'[^A-Za-z0-9_.-]', '_', clause)[:60]
    path = os.path.join(d, '%s-%s.json' % (safe_clause, h))
    with open(path, 'w', encoding='utf8') as fh:
        json.dump({'property': pid, 'clause': clause, 'witness': wstr, 'case': case,
                   'detail': detail, 'first_seen_on': origin,
                   'how_to_replay': 'cd /verif && /venv/bin/python -m vmc.replay %s' % path},
                  fh, indent=1, ensure_ascii=False, default=str)
    return path
