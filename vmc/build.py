"""Shadow -> real objects (two construction routes) and real objects -> shadow form."""
from __future__ import annotations

from flamapy.core.models.ast import AST, ASTOperation, Node
from flamapy.metamodels.fm_metamodel.models import (
    Attribute, Cardinality, Constraint, Feature, FeatureModel, FeatureType, Relation)

from . import shadow as sh

FTYPES = {'Boolean': FeatureType.BOOLEAN, 'Integer': FeatureType.INTEGER,
          'Real': FeatureType.REAL, 'String': FeatureType.STRING}


# marker names of the history driver: the child built for such a shadow feature is replaced by a
# value that is not a Feature, so that library code walking the tree raises half-way
ALIENS = {'__ALIEN_STR__': 'alien', '__ALIEN_NONE__': None}
SHARE = {'on': False}     # history driver XD: constraints with shared sub-expression objects, attribute values with shared containers


def is_poisoned(model):
    return any((not isinstance(f[0], str)) or f[0] in ALIENS for f in sh.features(model))


def node(tree, memo=None):
    """Shadow tree -> Node objects.  With a memo dict, equal sub-trees become one shared Node object
    (the expression graph is then a DAG, as flamapy.core's own AST.to_cnf() produces them)."""
    if tree is None:
        return None
    if memo is not None and tree in memo:
        return memo[tree]
    if isinstance(tree, tuple):
        op, left, right = tree
        n = Node(ASTOperation[op], node(left, memo), node(right, memo))
    else:
        n = Node(tree)
    if memo is not None:
        memo[tree] = n
    return n




def constraint(name, tree):
    return Constraint(name, AST(node(tree, {} if SHARE['on'] else None)))


def _feature(sf, relations=None):
    name, _rels, abstract, ftype, fcard, _attrs = sf
    kw = {}
    if ftype != 'Boolean':
        kw['feature_type'] = FTYPES[ftype]
    if tuple(fcard) != sh.DEFAULT_FCARD:
        kw['feature_cardinality'] = Cardinality(fcard[0], fcard[1])
    return Feature(name, [] if relations is None else relations, is_abstract=abstract, **kw)


def _alias_equal_containers(val, memo):
    """Equal lists / dicts inside one attribute value become one shared object (a value like [[0] * 3] * 2)."""
    if isinstance(val, list):
        val = [_alias_equal_containers(x, memo) for x in val]
    elif isinstance(val, dict):
        val = {k: _alias_equal_containers(x, memo) for k, x in val.items()}
    else:
        return val
    key = repr(val)
    return memo.setdefault(key, val)


def afm_attr(ranges, elements, default, null):
    """Shadow value of an attribute with a domain (AFM style)."""
    return sh.freeze({'__afm__': True, 'ranges': [list(r) for r in ranges], 'elements': list(elements),
                      'default': default, 'null': null})


def _attrs(f, sf):
    from flamapy.metamodels.fm_metamodel.models import Domain, Range
    for (aname, aval) in sf[5]:
        val = sh.thaw(aval)
        if SHARE['on']:
            val = _alias_equal_containers(val, {})
        if isinstance(val, dict) and val.get('__afm__'):
            dom = Domain([Range(lo, hi) for lo, hi in val['ranges']] or None, list(val['elements']) or None)
            f.add_attribute(Attribute(aname, dom, val['default'], val['null']))
        else:
            f.add_attribute(Attribute(aname, None, val, None))


ROUTE = {'default': 'A'}      # driver XB of vmc.hist switches the construction route of a whole check


def build(model, route=None):
    """Build a real FeatureModel from a shadow through the public constructors.
    route A: the route every reader uses (children first, Relation(parent, [children]),
             parent.add_relation);
    route B: incremental (empty relation attached first, then Relation.add_child plus the
             parent assignment a caller of add_child has to make, cardinality set last)."""
    def rec_a(sf):
        f = _feature(sf)
        for (a, b, kids) in sf[1]:
            children = [rec_a(k) for k in kids]
            rel = Relation(f, children, a, b)
            f.add_relation(rel)
            for i, k in enumerate(kids):
                if k[0] in ALIENS:
                    rel.children[i] = ALIENS[k[0]]     # ill-formed on purpose (history driver, vmc.hist)
        _attrs(f, sf)
        return f

    def rec_b(sf):
        f = _feature(sf)
        _attrs(f, sf)
        for (a, b, kids) in sf[1]:
            rel = Relation(f, [], 0, 0)
            f.add_relation(rel)
            for k in kids:
                if k[0] in ALIENS:
                    rel.children.append(ALIENS[k[0]])
                    continue
                child = rec_b(k)
                rel.add_child(child)
                child.parent = f
            rel.card_min = a
            rel.card_max = b
        return f
    def rec_c(sf):
        # attributes first, then an empty relation, then the children appended to its list directly
        # (no add_child), each child completed only after it has been attached
        own_relations = []
        f = _feature(sf, own_relations)       # the list the caller passed stays the caller's: it is filled afterwards
        _attrs(f, sf)
        pending = []
        for (a, b, kids) in sf[1]:
            rel = Relation(f, [], a, b)
            own_relations.append(rel)
            pending.append((rel, kids))
        for rel, kids in pending:
            for k in kids:
                child = rec_c(k) if k[0] not in ALIENS else ALIENS[k[0]]
                if hasattr(child, 'parent'):
                    child.parent = f
                rel.children.append(child)
        return f
    def rec_d(sf):
        # the relation is created empty, its children are put into its list, then it is attached:
        # Feature.add_relation is what makes the children know their parent
        f = _feature(sf)
        for (a, b, kids) in sf[1]:
            rel = Relation(f, [], a, b)
            rel.children.extend(rec_d(k) if k[0] not in ALIENS else ALIENS[k[0]] for k in kids)
            f.add_relation(rel)
        _attrs(f, sf)
        return f
    route = route or ROUTE['default']
    root = {'A': rec_a, 'B': rec_b, 'C': rec_c, 'D': rec_d}[route](model[0])
    if route == 'C':
        own_ctcs = []
        fm = FeatureModel(root, own_ctcs)
        for n, t in model[1]:
            own_ctcs.append(constraint(n, t))       # constraints added to the caller's list after the model object exists
        return fm
    ctcs = [constraint(n, t) for n, t in model[1]]
    return FeatureModel(root, ctcs)


# --------------------------------------------------------------------------- observation

def obs_tree(n, _depth=0):
    """Real AST node -> shadow tree, keeping operand *positions* (None where missing)."""
    if n is None:
        return None
    if _depth > 5000:
        return ('obj', 'too-deep', '')
    data = n.data
    if isinstance(data, ASTOperation):
        return (data.value, obs_tree(n.left, _depth + 1), obs_tree(n.right, _depth + 1))
    left = obs_tree(n.left, _depth + 1)
    right = obs_tree(n.right, _depth + 1)
    if left is None and right is None:
        if isinstance(data, (bool,)) or not isinstance(data, (str, int, float)):
            return ('obj', type(data).__name__, str(data))
        return data
    return ('TERM-WITH-CHILDREN', sh.freeze(data), left, right)


def obs_feature(f, _seen=None):
    _seen = set() if _seen is None else _seen
    if id(f) in _seen:
        return ('CYCLE', str(getattr(f, 'name', '?')))
    _seen.add(id(f))
    rels = []
    for r in f.relations:
        rels.append((_strict_int(r.card_min), _strict_int(r.card_max),
                     tuple([obs_feature(c, _seen) for c in r.children])))
    ftype = f.feature_type.value if isinstance(f.feature_type, FeatureType) else ('obj', str(f.feature_type))
    fc = f.feature_cardinality
    fcard = (_strict_int(getattr(fc, 'min', None)), _strict_int(getattr(fc, 'max', None)))
    attrs = tuple((a.name, _obs_attr_value(a)) for a in f.get_attributes())
    abstract = f.is_abstract if isinstance(f.is_abstract, bool) else sh.freeze(f.is_abstract)
    name = f.name if isinstance(f.name, str) else sh.freeze(f.name)
    return (name, tuple(rels), abstract, ftype, fcard, attrs)


def _obs_attr_value(a):
    if a.domain is None:
        return sh.freeze(a.default_value)
    dom = a.domain
    return sh.freeze({'__afm__': True,
                      'ranges': [[_plain_or_obj(r.min_value), _plain_or_obj(r.max_value)] for r in dom.get_range_list()],
                      'elements': [_plain_or_obj(e) for e in dom.get_element_list()],
                      'default': _plain_or_obj(a.default_value), 'null': _plain_or_obj(a.null_value)})


def _plain_or_obj(v):
    if v is None or isinstance(v, (bool, int, float, str)):
        return v
    return 'OBJ<%s:%s>' % (type(v).__name__, v)


def _strict_int(v):
    if isinstance(v, int) and not isinstance(v, bool):
        return v
    return sh.freeze(v)


def observe(fm):
    """Real FeatureModel -> shadow form, by walking public attributes only."""
    ctcs = tuple((c.name, obs_tree(c.ast.root)) for c in fm.ctcs)
    return (obs_feature(fm.root), ctcs)


def wellformed(fm):
    """Identity-level tree invariants (C02 / build conformance).  Returns list of problems."""
    problems = []
    root = fm.root
    if root.parent is not None:
        problems.append('root.parent is not None')
    seen_feats = {}
    stack = [root]
    owners = {}
    while stack:
        f = stack.pop()
        if id(f) in seen_feats:
            problems.append('feature %s reached twice' % f.name)
            continue
        seen_feats[id(f)] = f
        for r in f.relations:
            if r.parent is not f:
                problems.append('relation under %s has parent %s' % (f.name, getattr(r.parent, 'name', r.parent)))
            if not r.children:
                problems.append('empty relation under %s' % f.name)
            for c in r.children:
                if id(c) in owners:
                    problems.append('feature %s is a child in two relations' % c.name)
                owners[id(c)] = r
                if c.parent is not f:
                    problems.append('child %s has parent %s, expected %s'
                                    % (c.name, getattr(c.parent, 'name', c.parent), f.name))
                stack.append(c)
        for a in f.get_attributes():
            if a.parent is not f:
                problems.append('attribute %s.%s has parent %s'
                                % (f.name, a.name, getattr(a.parent, 'name', a.parent)))
    return problems
