"""Shared case space for C13/C14/C15: complete structure space, alone and x constraint sets."""
from __future__ import annotations

from .. import shadow as sh
from .. import space as sp
from . import common as cm

BOUNDS = {'quick': (6, 4), 'thorough': (7, 5)}


def cases(tier, seed):
    n_plain, n_ctc = BOUNDS[tier]
    for m in sp.structures_upto(n_plain):
        yield ('S', m)
    # [a..*] groups (card_max == -1, as the UVL reader produces them)
    for m in sp.structures_upto(min(n_plain - 1, 5), star=True):
        if any(b == -1 and len(k) > 1 for (_p, _a, b, k) in sh.relations(m)) and \
                not any(b == -1 and len(k) == 1 for (_p, _a, b, k) in sh.relations(m)):
            yield ('S', m)
    # analyse -> edit the same model object in place -> analyse again with the same operation object
    for m in sp.structures_upto(4 if tier == 'quick' else 5):
        yield ('SE', m)
    # the abstract flag has no influence on configurations: every single feature abstract, all abstract
    for m in sp.structures_upto(4):
        feats = sh.names(m)
        for subset in [(n,) for n in feats] + [tuple(feats)]:
            def rec(f, subset=subset):
                return (f[0], tuple((a, b, tuple(rec(k) for k in kids)) for (a, b, kids) in f[1]), f[0] in subset, f[3], f[4], f[5])
            yield ('S', (rec(m[0]), ()))
    # names that are prefixes of / dotted combinations of other names of the model, at every position
    for m in sp.structures(4):
        for names4 in (('EngineSystem', 'Engine', 'Eng', 'EngineSystemX'), ('Net', 'Wifi.Secure', 'Net.Wifi', 'Secure'),
                       ('GPSNavigation', 'Maps', 'GPS', 'GPSNav')):
            for rot in range(4):
                mapping = dict(zip(sh.names(m), names4[rot:] + names4[:rot]))

                def ren(f, mapping=mapping):
                    return (mapping[f[0]], tuple((a, b, tuple(ren(k) for k in kids)) for (a, b, kids) in f[1]), f[2], f[3], f[4], f[5])
                yield ('S', (ren(m[0]), ()))
    # two executions of the operation that overlap (see vmc.sched): every pair of 3-feature models and a
    # few wider groups
    small = list(sp.structures(3))
    wide = [sh.M(sh.F('Fa', [sh.R(a, b, [sh.F(n) for n in ('Bb', 'Dc', 'Ad', 'Ee')[:k]])])) for (k, a, b) in ((3, 1, 2), (4, 2, 3), (4, 0, 2), (3, 0, 1))]
    for ma in small + wide:
        for mb in (small[::5] + wide if ma in small else small[::3] + wide):
            yield ('ST', ma, mb)
    # an execution that raises half-way on an ill-formed variant, then the well-formed model (same
    # operation object, then a fresh one); and what the caller does with a returned result
    for m in list(sp.structures_upto(4 if tier == 'quick' else 5))[1:]:
        yield ('SF', m)
    for m in sp.structures_upto(4 if tier == 'quick' else 5):
        yield ('SO', m)
    from . import families
    for m in families.models():
        yield ('S', m)
    for spec in families.BIG_SPECS:
        yield ('B', spec)
    from . import rt
    for m in rt.collision_models():
        yield ('SK', m)
        yield ('SK', (m[0], ()))
    for m in families.models(11):
        for t in families.deep_trees()[::9]:
            yield ('SK', cm.with_ctc(m, t))
    for t in families.deep_trees():
        yield ('SK', cm.on_carrier([t]))
    # three operator levels with implies / requires at the root and a conjunction below it, under EVERY
    # assignment of the variables to features (the left side a core feature, the parent of an optional
    # feature that occurs below, ...), and every ordered pair of requires rules between features
    import itertools
    x, y, z = cm.XYZ
    level3 = [('IMPLIES', x, ('AND', y, ('OR', z, y))), ('IMPLIES', x, ('AND', y, ('NOT', z, None))), ('REQUIRES', x, ('AND', y, ('OR', z, x))),
              ('IMPLIES', x, ('AND', ('OR', y, z), y)), ('IMPLIES', x, ('AND', y, ('IMPLIES', z, x))), ('IMPLIES', x, ('AND', y, ('XOR', z, y))),
              ('IMPLIES', x, ('AND', y, ('EQUIVALENCE', z, x))), ('IMPLIES', x, ('OR', y, ('AND', z, y))), ('EXCLUDES', x, ('AND', y, ('OR', z, y)))]
    for n in (3, 4):
        for m in sp.structures(n):
            nm = sh.names(m)
            for assign in itertools.permutations(nm, 3):
                mapping = dict(zip((x, y, z), assign))
                for t in level3:
                    yield ('SK', (m[0], (('c1', cm.map_names(t, mapping)),)))
            if n == 4:
                edges = list(itertools.permutations(nm, 2))
                for e1 in edges:
                    for e2 in edges:
                        if e1 != e2:
                            yield ('SK', (m[0], (('c1', ('REQUIRES', e1[0], e1[1])), ('c2', ('REQUIRES', e2[0], e2[1])))))
    ksets = list(cm.k1()) + list(cm.k2_subset())
    for n in range(2, n_ctc + 1):
        for m in sp.structures(n):
            for t in ksets:
                yield ('SK', cm.with_ctc(m, t))


def plan(tier, what):
    n_plain, n_ctc = BOUNDS[tier]
    nk = len(cm.k1()) + len(cm.k2_subset())
    return {
        'chunk': 400,
        'bounds': 'S<=%d without constraints (plus S<=%d with [a..*] groups); S in 2..%d x %d constraint trees (K_1^3 + K_2 subset)' % (n_plain, min(n_plain - 1, 5), n_ctc, nk),
        'rule': 'every structure state (ordered trees x relation partitions x all cardinalities 0<=a<=b<=s) '
                'up to the bound, alone and with each constraint tree; non-trivial = has a group relation or a constraint; '
                'oracle: ' + what,
        'assumptions': ['reference semantics vmc.sem (brute force over 2^n selections), cross-checked against a closed form',
                        'CPython, flamapy.core as installed'],
        'coverage_extra': {'closed_form_counts': {str(k): sp.count_structures(k) for k in range(1, n_plain + 1)}},
    }


def describe(case):
    if case[0] == 'ST':
        return 'ST:%s preempted by %s' % (sh.model_str(case[1]), sh.model_str(case[2]))
    if case[0] == 'B':
        return 'B:%s' % (case[1],)
    return cm.describe_model_case(case)


def resolve(case):
    if case[0] == 'B':
        from . import families
        return families.big_build(case[1])
    return case[1]


reduce = cm.reduce_model_case


def nontrivial(case):
    return case[0] in ('B', 'DC', 'SF', 'SO', 'WIDE', 'ST') or cm.has_group_or_ctc(case[1])


def reduce(case):  # noqa: F811
    if case[0] in ('B', 'DC', 'WIDE'):
        return
    if case[0] == 'ST':
        for r in sh.reductions(case[1], sp.NAME_POOL):
            yield ('ST', r, case[2])
        for r in sh.reductions(case[2], sp.NAME_POOL):
            yield ('ST', case[1], r)
        return
    yield from cm.reduce_model_case(case)


def edit_history(model, op_class, oracle):
    """For every in-place edit: execute, edit the same model object, execute again with the same
    operation object; the second result is judged by `oracle(result, edited_shadow)`."""
    from .. import build as bd
    from ..engine import Fail
    from .c03 import inplace_edits
    for (what, edit, em) in inplace_edits(model):
        if any(sh.tree_names(t) for _n, t in em[1]):
            continue
        fm, fails = cm.built(model)
        if fails:
            return fails
        op = op_class()
        try:
            op.execute(fm).get_result()
            cm.checked_edit(fm, edit, model, em, what)
            res = op.execute(fm).get_result()
        except AssertionError:
            raise
        except Exception as exc:  # noqa: BLE001
            return [Fail('after-inplace-edit:raises:%s' % type(exc).__name__, {'edit': what, 'msg': str(exc)[:200]})]
        out = oracle(res, em)
        for f in out:
            f.clause = 'after-inplace-edit:' + f.clause
            f.detail = {'edit': what, 'info': f.detail}
        if out:
            return out
    return []


def overlap(ma, mb, op_class, oracle):
    from .. import build as bd
    from .. import engine, sched
    from ..engine import Fail

    def make(model):
        def factory():
            fm = bd.build(model)
            op = op_class()
            return lambda: op.execute(fm).get_result()
        return factory
    try:
        for k, n, ra, rb in sched.explore(make(ma), make(mb)):
            engine.tick(2)
            if rb is None or rb[0] != 'ok':
                return [Fail('overlapping-executions:second-raises', {'at line event': '%d of %d' % (k, n), 'msg': repr(rb)[:200]})]
            for who, res, model in (('first', ra, ma), ('second', rb[1], mb)):
                out = oracle(res, model)
                for f in out:
                    f.clause = 'overlapping-executions:%s:%s' % (who, f.clause)
                    f.detail = {'second ran at line event': '%d of %d' % (k, n), 'info': f.detail}
                if out:
                    return out
    except Exception as exc:  # noqa: BLE001
        return [Fail('overlapping-executions:raises:%s' % type(exc).__name__, str(exc)[:200])]
    return []


def failure_history(model, op_class, oracle):
    from .. import build as bd
    from ..engine import Fail
    for path, _f in list(sh._paths(model[0]))[1:]:
        for marker in ('__ALIEN_STR__', '__ALIEN_NONE__'):
            bad = (sh._replace_feature(model[0], list(path), lambda g, marker=marker: (marker, (), g[2], g[3], g[4], g[5])), model[1])
            op = op_class()
            raised = False
            try:
                op.execute(bd.build(bad))
            except Exception:  # noqa: BLE001
                raised = True
            fm, fails = cm.built(model)
            if fails:
                return fails
            for who, obj in (('same-object', op), ('fresh-object', op_class())):
                try:
                    res = obj.execute(fm).get_result()
                except Exception as exc:  # noqa: BLE001
                    return [Fail('after-failed-execution:%s:raises:%s' % (who, type(exc).__name__), {'first': '%s at %s' % (marker, list(path)), 'msg': str(exc)[:200]})]
                out = oracle(res, model)
                for f in out:
                    f.clause = 'after-failed-execution:%s:%s' % (who, f.clause)
                    f.detail = {'first': '%s at %s' % (marker, list(path)), 'first raised': raised, 'info': f.detail}
                if out:
                    return out
    return []


def result_ownership(model, op_class, oracle):
    """Results handed out earlier are not changed by later executions, and emptying a returned
    container does not reach later executions (same object, fresh object, same model object)."""
    from .. import build as bd
    from ..engine import Fail
    import copy
    fm, fails = cm.built(model)
    if fails:
        return fails
    op = op_class()
    try:
        first = op.execute(fm).get_result()
        snap = _plain_result(first)
        other = sh.M(sh.F('Zq', [sh.R(1, 1, [sh.F('Yq')]), sh.R(0, 1, [sh.F('Xq')])]))
        op.execute(bd.build(other)).get_result()
        op_class().execute(bd.build(other)).get_result()
        if _plain_result(first) != snap:
            return [Fail('earlier-result-changed-by-later-execution', {'was': repr(snap)[:200], 'now': repr(_plain_result(first))[:200]})]
        if isinstance(first, (list, set, dict)):
            keep = copy.copy(first)
            for x in (first if isinstance(first, list) else ()):
                if isinstance(x, (set, list)):
                    x.clear()
            first.clear()
            for who, obj in (('same-object', op), ('fresh-object', op_class())):
                res = obj.execute(fm).get_result()
                out = oracle(res, model)
                for f in out:
                    f.clause = 'after-the-caller-emptied-a-result:%s:%s' % (who, f.clause)
                if out:
                    return out
            del keep
    except Exception as exc:  # noqa: BLE001
        return [Fail('result-ownership:raises:%s' % type(exc).__name__, str(exc)[:200])]
    return []


def _plain_result(res):
    if isinstance(res, list):
        return tuple(_plain_result(x) for x in res)
    if isinstance(res, (set, frozenset)):
        return tuple(sorted(_plain_result(x) for x in res))
    return getattr(res, 'name', res)
