"""C19 - operations depend only on their argument; read-only ones never mutate it."""
from __future__ import annotations

import itertools

from flamapy.core.exceptions import FlamaException
from flamapy.metamodels.fm_metamodel import operations as ops
from flamapy.metamodels.fm_metamodel.models import Attribute, Domain, Range
from flamapy.metamodels.fm_metamodel.operations import fm_generate_random_attribute as gra

from .. import build as bd
from .. import engine, sem
from .. import shadow as sh
from .. import space as sp
from ..engine import Fail
from . import common as cm
from .c17 import _plain
from .c18 import _snapshot

ID = 'C19'
OPS = ('FMAtomicSets', 'FMAverageBranchingFactor', 'FMCoreFeatures', 'FMCountLeafs',
       'FMEstimatedConfigurationsNumber', 'FMFeatureAncestors', 'FMLeafFeatures', 'FMMaxDepthTree',
       'FMMetrics', 'FMVariationPoints')
ATTR = 'cost'

DOMAINS = {
    'list3': ((), ('a', 'b', 'c')),
    'list1': ((), (1,)),
    'int': (((0, 3),), ()),
    'int-single': (((7, 7),), ()),
    'int-huge': (((10 ** 18 + 1, 10 ** 18 + 9),), ()),
    'int-huge-single': (((2 ** 53 + 1, 2 ** 53 + 1), (-2 ** 63 - 1, -2 ** 63 + 1)), ()),
    'int-wide': (((-5, 40),), ()),
    'int2': (((0, 1), (10, 12)), ()),
    'float1': (((0.5, 1.5),), ()),
    'float2': (((0.25, 0.75),), ()),
    'float-exp': (((1e-05, 5e-05),), ()),
    'float-2dec': (((0.29, 0.35),), ()),
    'float-2dec-b': (((0.57, 0.58), (4.35, 4.36)), ()),
    'float-neg': (((-1.15, -0.29),), ()),
    'float-points': (((0.5, 0.5), (2.5, 2.5)), ()),
    'float-point': (((0.29, 0.29),), ()),
    'int-points': (((3, 3), (9, 9)), ()),
    'late-list3': ((), ('a', 'b', 'c')),
    'late-int': (((0, 3),), ()),
    'late-mixed': (((0, 2),), ('x', 'y')),
    'int-float': (((1, 2.5),), ()),
    'mixed': (((0, 2),), ('x', 'y')),
    'empty': ((), ()),
    'unset': None,
}


def _alphabet(tier):
    ms = list(sp.structures_upto(3))
    extra = [cm.on_carrier([('REQUIRES', 'x', 'y')]),
             cm.on_carrier([('AND', 'x', ('OR', 'y', 'z')), ('EXCLUDES', 'x', 'z')]),
             cm.on_carrier([('XOR', 'x', 'y')]),
             cm.on_carrier([('IMPLIES', 'x', ('EQUIVALENCE', 'y', 'z')), ('NOT', ('XOR', 'x', 'z'), None)]),
             cm.on_carrier([('OR', ('OR', ('AND', 'x', 'y'), 'z'), 'x'), ('AND', ('OR', 'x', ('OR', 'y', ('AND', 'z', 'x'))), 'y')]),
             sh.M(sh.F('Fa', [sh.R(1, 2, [sh.F('Bb'), sh.F('Dc')]), sh.R(1, 1, [sh.F('Ad', [sh.R(0, 1, [sh.F('Ee')])])])]))]
    # 4-feature models whose root owns a 2-child group and one grouped child has a child of its own:
    # same parent / children names / bounds as a 3-feature model of the alphabet, different subtree
    four = [m for m in sp.structures(4) if len(m[0][1]) == 1 and len(m[0][1][0][2]) == 2]
    star = [sh.M(sh.F('Fa', [sh.R(2, -1, [sh.F('Bb'), sh.F('Dc'), sh.F('Ad')])])), sh.M(sh.F('Fa', [sh.R(1, -1, [sh.F('Bb'), sh.F('Dc')]), sh.R(0, -1, [sh.F('Ad'), sh.F('Ee')])]))]
    return ms + four + star + extra


def _sub_alphabet(alpha):
    return alpha[:4] + alpha[10:12] + alpha[28:34:2] + alpha[-8:]


def cases(tier, seed):
    alpha = _alphabet(tier)
    for op in OPS:
        for m in alpha:
            yield ('H', op, (m,))
        for seq in itertools.product(alpha, repeat=2):
            yield ('H', op, tuple(seq))
        sub = _sub_alphabet(alpha) if tier == 'quick' else alpha
        for seq in itertools.product(sub, repeat=3):
            yield ('H', op, tuple(seq))
    for opa in OPS:
        for opb in OPS:
            for m in alpha:
                yield ('X', opa, opb, m)
    # the same model object analysed, edited in place, analysed again by the same operation object
    for op in OPS:
        for m in sp.structures_upto(4):
            yield ('HE', op, m)
    for op in ('FMMetrics', 'FMCoreFeatures', 'FMEstimatedConfigurationsNumber', 'FMAtomicSets'):
        for t in list(cm.k1())[::3] + list(cm.k2_subset())[::5]:
            yield ('HE', op, cm.on_carrier([t]))
    # two executions that overlap (one preemption: the second runs to completion at any line of the first)
    F, R, M = sh.F, sh.R, sh.M
    tm = [M(F('Fa', [R(1, 2, [F('Bb'), F('Dc'), F('Ad')]), R(0, 1, [F('Ee', [R(1, 1, [F('Cf')])])])])),
          M(F('Fa', [R(2, 3, [F('Bb'), F('Dc', [R(0, 1, [F('Gg')])]), F('Ad'), F('Ee')]), R(1, 1, [F('Cf')])]), [('c1', ('REQUIRES', 'Bb', 'Cf'))]),
          M(F('Zz', [R(0, 2, [F('Yy'), F('Xx', [R(1, 1, [F('Ww'), F('Vv')])]), F('Uu')])]))]
    for opa in OPS:
        for opb in OPS:
            for (i, j) in ((0, 1), (1, 0), (2, 2)) if tier == 'quick' else ((0, 1), (1, 0), (0, 0), (1, 2), (2, 2), (1, 1)):
                yield ('XT', opa, opb, tm[i], tm[j])
    # an execution that raises half-way, then the well-formed model (same operation object, fresh one)
    for op in OPS:
        for m in list(sp.structures_upto(4 if tier == 'quick' else 5))[1:] + alpha[-6:]:
            yield ('HF', op, m)
    for m in sp.structures_upto(3 if tier == 'quick' else 4):
        for leaves_only in (False, True):
            for pre in ('none', 'some', 'all', 'some-valueless', 'similar-names'):
                for dom in DOMAINS:
                    if pre == 'similar-names' and dom not in ('list3', 'int', 'mixed', 'unset'):
                        continue
                    yield ('G', m, leaves_only, pre, dom, 3 if tier == 'quick' else 4)


def plan(tier):
    return {
        'chunk': 60,
        'bounds': 'read-only operations (10) x all histories of length <=2 over a %d-model alphabet and of length 3 over %d models, '
                  'on one operation object; all ordered pairs of operations on every model; GenerateRandomAttribute on S<=%d x '
                  '{all, leaves} x {none, some, all pre-existing} x %d domains, every choice sequence of the random controller '
                  'with <=%d non-default answers' % (len(_alphabet(tier)), len(_sub_alphabet(_alphabet(tier))) if tier == 'quick' else len(_alphabet(tier)),
                                                      3 if tier == 'quick' else 4, len(DOMAINS), 3 if tier == 'quick' else 4),
        'rule': 'after every step the result must equal the result of a fresh object on a fresh copy and the model snapshot '
                '(shadow form + AST node identities) must be unchanged; generation: exactly the targeted features lacking the '
                'attribute gain one attribute whose value lies in the domain, everything else unchanged; missing domain is a '
                'FlamaException; random.choice/randint/uniform are replaced by a recorded choice-point controller',
        'assumptions': ['the random module attribute of fm_generate_random_attribute is the only source of randomness'],
    }


def describe(case):
    if case[0] == 'H':
        return 'H:%s | %s' % (case[1], ' -> '.join(sh.model_str(m) for m in case[2]))
    if case[0] == 'X':
        return 'X:%s,%s | %s' % (case[1], case[2], sh.model_str(case[3]))
    if case[0] == 'XT':
        return 'XT:%s preempted by %s | %s || %s' % (case[1], case[2], sh.model_str(case[3]), sh.model_str(case[4]))
    if case[0] in ('HE', 'HF'):
        return '%s:%s | %s' % (case[0], case[1], sh.model_str(case[2]))
    return 'G:%s | leaves=%s pre=%s domain=%s dev<=%d' % (sh.model_str(case[1]), case[2], case[3], case[4], case[5])


def reduce(case):
    if case[0] == 'H':
        seq = case[2]
        if len(seq) > 1:
            for i in range(len(seq)):
                yield ('H', case[1], seq[:i] + seq[i + 1:])
        for i, m in enumerate(seq):
            for r in sh.reductions(m, sp.NAME_POOL):
                yield ('H', case[1], seq[:i] + (r,) + seq[i + 1:])
    elif case[0] == 'X':
        for r in sh.reductions(case[3], sp.NAME_POOL):
            yield ('X', case[1], case[2], r)
    elif case[0] == 'XT':
        for r in sh.reductions(case[3], sp.NAME_POOL):
            yield ('XT', case[1], case[2], r, case[4])
        for r in sh.reductions(case[4], sp.NAME_POOL):
            yield ('XT', case[1], case[2], case[3], r)
    elif case[0] in ('HE', 'HF'):
        for r in sh.reductions(case[2], sp.NAME_POOL):
            if case[0] == 'HE' or sh.size(r) > 1:
                yield (case[0], case[1], r)
    else:
        for r in sh.reductions(case[1], sp.NAME_POOL):
            yield ('G', r) + tuple(case[2:])
        if case[5] > 0:
            yield ('G',) + tuple(case[1:5]) + (case[5] - 1,)
        if case[2]:
            yield ('G', case[1], False) + tuple(case[3:])
        if case[3] != 'none':
            yield ('G', case[1], case[2], 'none') + tuple(case[4:])


def nontrivial(case):
    return True


def selftest():
    sem.selftest()


# ----------------------------------------------------------------------------- read-only operations

def _norm(res):
    if isinstance(res, list):
        if res and all(isinstance(x, dict) for x in res):
            return ('metrics', tuple(_plain(res)))
        if all(isinstance(x, (set, frozenset)) for x in res) and res:
            return ('sets', tuple(sorted(tuple(sorted(f.name for f in s)) for s in res)))
        return ('list', tuple(getattr(x, 'name', x) for x in res))
    if isinstance(res, dict):
        return ('dict', tuple(sorted((k.name, tuple(v.name for v in vs)) for k, vs in res.items())))
    return ('value', res)


def _exec(op, opname, fm, raw=False):
    if opname == 'FMFeatureAncestors':
        op.set_feature(fm.get_features()[-1])
    r = op.execute(fm).get_result()
    engine.tick()
    return r if raw else _norm(r)


def _canon(res, suffix=''):
    """Order-insensitive form (lists that come from set iteration may be ordered by string hash,
    which changes with the names), with the unique suffix removed."""
    def st(x):
        return x.replace(suffix, '') if isinstance(x, str) and suffix else x
    if isinstance(res, list) and res and all(isinstance(x, dict) for x in res):
        out = []
        for r in res:
            val = r.get('result')
            if isinstance(val, list):
                val = tuple(sorted(st(str(v)) for v in val))
            else:
                val = st(val) if isinstance(val, str) else val
            out.append((r.get('name'), val, r.get('size'), r.get('ratio')))
        return tuple(sorted(out, key=repr))
    return _strip(_norm(res), suffix) if suffix else _norm(res)


_UNIQ = [0]


def _unique_copy(model):
    import os
    _UNIQ[0] += 1
    suffix = 'q%dx%dq' % (os.getpid(), _UNIQ[0])
    mapping = {n: n + suffix for n in sh.names(model)}

    def ren_f(f):
        return (mapping[f[0]], tuple((a, b, tuple(ren_f(k) for k in kids)) for (a, b, kids) in f[1]), f[2], f[3], f[4], f[5])
    return (ren_f(model[0]), tuple((n, cm.map_names(t, mapping)) for n, t in model[1])), suffix


def _strip(x, suffix):
    if isinstance(x, str):
        return x.replace(suffix, '')
    if isinstance(x, tuple):
        return tuple(_strip(y, suffix) for y in x)
    return x


def _full_snapshot(fm):
    keep = []
    ids = []
    for c in fm.ctcs:
        k, i = _snapshot(c.ast.root)
        keep.append(k)
        ids.append(i)
    return bd.observe(fm), ids, keep


def _check_history(opname, seq):
    out = []
    op = getattr(ops, opname)()
    kept = []        # (step, result object as returned, its normal form when it was returned)
    for i, model in enumerate(seq):
        fm, fails = cm.built(model)
        if fails:
            return fails
        before = _full_snapshot(fm)
        try:
            raw = _exec(op, opname, fm, raw=True)
            got = _norm(raw)
            kept.append((i, raw, got, fm))
        except Exception as exc:  # noqa: BLE001
            return [Fail('history-raises:%s' % type(exc).__name__, {'step': i, 'msg': str(exc)[:200]})]
        after = _full_snapshot(fm)
        if after[0] != before[0] or after[1] != before[1]:
            out.append(Fail('model-mutated', {'step': i, 'op': opname, 'after': cm._safe_str(after[0])}))
        fm2 = bd.build(model)
        try:
            fresh = _exec(getattr(ops, opname)(), opname, fm2)
        except Exception as exc:  # noqa: BLE001
            return [Fail('fresh-raises:%s' % type(exc).__name__, str(exc)[:200])]
        if got != fresh:
            out.append(Fail('result-depends-on-history', {'step': i, 'op': opname, 'got': repr(got)[:200], 'fresh': repr(fresh)[:200]}))
        # the same model under names never used before in this process: state keyed by names
        # (caches over Feature / Relation, which hash by name) cannot be hit by it
        try:
            renamed, suffix = _unique_copy(model)
            pristine = _canon(_exec(getattr(ops, opname)(), opname, bd.build(renamed), raw=True), suffix)
            again = _canon(_exec(getattr(ops, opname)(), opname, bd.build(model), raw=True))
        except Exception as exc:  # noqa: BLE001
            return [Fail('fresh-raises:%s' % type(exc).__name__, str(exc)[:200])]
        if again != pristine:
            got = again
            out.append(Fail('result-depends-on-process-history', {'step': i, 'op': opname, 'got': repr(got)[:200],
                                                                   'never-seen-names': repr(pristine)[:200]}))
        # results handed out earlier belong to the caller: later executions (by this or any other
        # operation object) must not change them
        for (j, raw_j, norm_j, _fm) in kept:
            try:
                now = _norm(raw_j)
            except Exception as exc:  # noqa: BLE001
                now = ('unreadable', type(exc).__name__)
            if now != norm_j:
                out.append(Fail('earlier-result-changed-by-later-execution', {'op': opname, 'result of step': j, 'after step': i,
                                                                              'was': repr(norm_j)[:200], 'now': repr(now)[:200]}))
                break
        if out:
            break
    if not out and kept:
        # ... and whatever the caller does with a returned result must not reach later executions
        j, raw_j, norm_j, fm_j = kept[-1]
        if _scribble(raw_j):
            try:
                again_same = _exec(op, opname, fm_j)
                again_fresh = _exec(getattr(ops, opname)(), opname, bd.build(seq[-1]))
                engine.tick(2)
            except Exception as exc:  # noqa: BLE001
                return [Fail('history-raises:%s' % type(exc).__name__, {'after': 'the caller emptied a returned result', 'msg': str(exc)[:200]})]
            if again_same != norm_j or again_fresh != norm_j:
                out.append(Fail('result-depends-on-what-the-caller-did-with-an-earlier-result',
                                {'op': opname, 'expected': repr(norm_j)[:200], 'same object': repr(again_same)[:200],
                                 'fresh object': repr(again_fresh)[:200]}))
    return out


def _scribble(res):
    """Empty a returned container in place (what a caller is free to do with a value it was given)."""
    if isinstance(res, list):
        for x in res:
            if isinstance(x, (set, list, dict)):
                x.clear()
        res.clear()
        return True
    if isinstance(res, (dict, set)):
        res.clear()
        return True
    return False


def _check_overlap(opa, opb, ma, mb):
    """Every schedule A[0:k] ; B ; A[k:] of two executions on separate objects: both results are the
    sequential ones."""
    from .. import sched
    try:
        seq_a = _exec(getattr(ops, opa)(), opa, bd.build(ma))
        seq_b = _exec(getattr(ops, opb)(), opb, bd.build(mb))
    except Exception as exc:  # noqa: BLE001
        return [Fail('fresh-raises:%s' % type(exc).__name__, str(exc)[:200])]

    def make(opname, model):
        def factory():
            fm = bd.build(model)
            op = getattr(ops, opname)()
            if opname == 'FMFeatureAncestors':
                op.set_feature(fm.get_features()[-1])
            return lambda: _norm(op.execute(fm).get_result())
        return factory
    try:
        for k, n, ra, rb in sched.explore(make(opa, ma), make(opb, mb)):
            engine.tick(2)
            if ra != seq_a or rb != ('ok', seq_b):
                return [Fail('overlapping-executions', {'first': opa, 'second': opb, 'second ran at line event': '%d of %d' % (k, n),
                                                        'first gave': repr(ra)[:150], 'alone': repr(seq_a)[:150],
                                                        'second gave': repr(rb)[:150], 'alone ': repr(seq_b)[:150]})]
    except Exception as exc:  # noqa: BLE001
        return [Fail('overlapping-executions:raises:%s' % type(exc).__name__, {'first': opa, 'second': opb, 'msg': str(exc)[:200]})]
    engine.validated()
    return []


class _Foreign:
    pass


def _check_failure_history(opname, model):
    """An execution that raises half-way (ill-formed model: one child is not a Feature; for the
    ancestors operation also a feature that is not in the model), then the well-formed model with the
    same operation object and with a fresh one."""
    out = []
    variants = []
    for path, _f in list(sh._paths(model[0]))[1:]:
        for marker in ('__ALIEN_STR__', '__ALIEN_NONE__'):
            variants.append((marker + '@' + '.'.join('%d,%d' % p for p in path),
                             (sh._replace_feature(model[0], list(path), lambda g, marker=marker: (marker, (), g[2], g[3], g[4], g[5])), model[1])))
    variants.append(('foreign', sh.M(sh.F('Zq', [sh.R(1, 1, [sh.F('Yq')]), sh.R(0, 1, [sh.F('Xq')])]))))
    try:
        fresh = _exec(getattr(ops, opname)(), opname, bd.build(model))
    except Exception as exc:  # noqa: BLE001
        return [Fail('fresh-raises:%s' % type(exc).__name__, str(exc)[:200])]
    for (what, bad) in variants:
        op = getattr(ops, opname)()
        good = bd.build(model)
        if opname == 'FMFeatureAncestors':
            op.set_feature(good.get_features()[-1])
        raised = False
        try:
            op.execute(bd.build(bad))
        except Exception:  # noqa: BLE001
            raised = True
        engine.tick()
        try:
            got = _norm(op.execute(good).get_result())
            other = _exec(getattr(ops, opname)(), opname, bd.build(model))
            renamed, suffix = _unique_copy(model)
            pristine = _canon(_exec(getattr(ops, opname)(), opname, bd.build(renamed), raw=True), suffix)
            again = _canon(_exec(getattr(ops, opname)(), opname, bd.build(model), raw=True))
            engine.tick(3)
        except Exception as exc:  # noqa: BLE001
            return [Fail('after-failed-execution:raises:%s' % type(exc).__name__, {'op': opname, 'first': what, 'first raised': raised, 'msg': str(exc)[:200]})]
        if got != fresh:
            out.append(Fail('after-failed-execution:same-object', {'op': opname, 'first': what, 'first raised': raised, 'got': repr(got)[:200], 'fresh': repr(fresh)[:200]}))
        elif other != fresh or again != pristine:
            out.append(Fail('after-failed-execution:fresh-object', {'op': opname, 'first': what, 'got': repr(other)[:200], 'fresh': repr(fresh)[:200]}))
        if out:
            break
    return out


def _check_cross(opa, opb, model):
    out = []
    fm, fails = cm.built(model)
    if fails:
        return fails
    before = _full_snapshot(fm)
    try:
        _exec(getattr(ops, opa)(), opa, fm)
        got = _exec(getattr(ops, opb)(), opb, fm)
        fresh = _exec(getattr(ops, opb)(), opb, bd.build(model))
    except Exception as exc:  # noqa: BLE001
        return [Fail('cross-raises:%s' % type(exc).__name__, str(exc)[:200])]
    after = _full_snapshot(fm)
    if after[0] != before[0] or after[1] != before[1]:
        out.append(Fail('model-mutated', {'ops': [opa, opb], 'after': cm._safe_str(after[0])}))
    if got != fresh:
        out.append(Fail('result-depends-on-earlier-operation', {'ops': [opa, opb], 'got': repr(got)[:200], 'fresh': repr(fresh)[:200]}))
    return out


# ----------------------------------------------------------------------------- random controller

class Divergence(Exception):
    pass


class Controller:
    """Stands in for the `random` module inside fm_generate_random_attribute."""

    def __init__(self, prefix):
        self.prefix = list(prefix)
        self.points = []      # (kind, menu)
        self.taken = []

    def _pick(self, kind, menu):
        i = len(self.points)
        self.points.append((kind, menu))
        if i < len(self.prefix):
            c = self.prefix[i]
            if c >= len(menu):
                raise Divergence('choice %d out of range at point %d (%s menu %d)' % (c, i, kind, len(menu)))
        else:
            c = 0
        self.taken.append(c)
        engine.tick()
        return menu[c]

    def choice(self, seq):
        seq = list(seq)
        if not seq:
            raise IndexError('Cannot choose from an empty sequence')
        return self._pick('choice', seq)

    def randint(self, a, b):
        if b < a:
            raise ValueError('empty range for randrange()')
        if b - a <= 4:
            menu = list(range(a, b + 1))
        else:
            menu = sorted({a, a + 1, (a + b) // 2, b - 1, b})
        return self._pick('randint', menu)

    def uniform(self, a, b):
        eps = (b - a) * 1e-9
        menu = [a, b, (a + b) / 2, a + (b - a) / 3, a + eps, b - eps]
        return self._pick('uniform', menu)

    def random(self):
        return self._pick('random', [0.0, 0.5, 0.999999, 0.25, 1e-9])

    def randrange(self, start, stop=None, step=1):
        if stop is None:
            start, stop = 0, start
        vals = list(range(start, stop, step))
        if not vals:
            raise ValueError('empty range for randrange()')
        menu = vals if len(vals) <= 5 else sorted({vals[0], vals[1], vals[len(vals) // 2], vals[-2], vals[-1]})
        return self._pick('randrange', menu)

    def choices(self, population, weights=None, cum_weights=None, k=1):
        population = list(population)
        if cum_weights is not None and weights is None:
            weights = [c - p for c, p in zip(cum_weights, [0] + list(cum_weights)[:-1])]
        if weights is not None:
            weights = list(weights)
            if len(weights) != len(population):
                raise ValueError('The number of weights does not match the population')
            if not sum(weights) > 0:
                raise ValueError('Total of weights must be greater than zero')
            population = [x for x, w in zip(population, weights) if w > 0]      # elements that can be drawn at all
        return [population[self._pick('choices', list(range(len(population))))] for _ in range(k)]

    def sample(self, population, k):
        pool = list(population)
        out = []
        for _ in range(k):
            out.append(pool.pop(self._pick('sample', list(range(len(pool))))))
        return out

    def shuffle(self, x):
        return None

    def seed(self, *args, **kwargs):
        return None

    def __getattr__(self, name):
        # anything else of the random module: a fixed-seed generator (deterministic, not explored)
        import random as _random
        fallback = self.__dict__.setdefault('_fallback', _random.Random(12345))
        return getattr(fallback, name)


def _expected_targets(model, leaves_only, pre):
    feats = sh.features(model)
    targeted = [f[0] for f in feats if (not leaves_only or not f[1])]
    if pre in ('none', 'similar-names'):
        have = []       # ('similar-names': every feature carries attributes called max_cost, cost2, Cost, costs - none called cost)
    elif pre in ('some', 'some-valueless'):
        have = targeted[:1]
    else:
        have = [f[0] for f in feats]
    return targeted, have


def _with_pre(model, have, valueless=False, similar=False):
    def rec(f):
        attrs = f[5] + (((ATTR, sh.freeze(None if valueless else 'KEEP')),) if f[0] in have else ())
        if similar:
            attrs = attrs + tuple((n, sh.freeze(1)) for n in ('max_' + ATTR, ATTR + '2', ATTR.capitalize(), ATTR + 's'))
        return (f[0], tuple((a, b, tuple(rec(k) for k in kids)) for (a, b, kids) in f[1]), f[2], f[3], f[4], attrs)
    return (rec(model[0]), model[1])


def _value_ok(v, spec):
    ranges, elements = spec
    for e in elements:
        if type(e) is type(v) and e == v:
            return True
    for (lo, hi) in ranges:
        if isinstance(lo, int) and isinstance(hi, int):
            if isinstance(v, int) and not isinstance(v, bool) and lo <= v <= hi:
                return True
        else:
            if isinstance(v, (int, float)) and not isinstance(v, bool) and lo <= v <= hi:
                return True
    return False


def _run_generation(model, leaves_only, pre, domkey, prefix):
    spec = DOMAINS[domkey]
    targeted, have = _expected_targets(model, leaves_only, pre)
    base = _with_pre(model, have, valueless=(pre == 'some-valueless'), similar=(pre == 'similar-names'))
    fm, fails = cm.built(base)
    if fails:
        return None, fails
    ctl = Controller(prefix)
    import random as _random
    saved = {}
    if getattr(gra, 'random', None) is _random or isinstance(getattr(gra, 'random', None), Controller):
        saved['random'] = gra.random
        gra.random = ctl
    for fn in ('choice', 'randint', 'uniform', 'randrange', 'choices', 'sample', 'shuffle'):
        cur = getattr(gra, fn, None)
        if cur is not None and (getattr(cur, '__self__', None) is _random._inst or getattr(cur, '__func__', None) is getattr(Controller, fn, None)
                                or getattr(cur, '__module__', None) == 'random'):
            saved[fn] = cur
            setattr(gra, fn, getattr(ctl, fn))
    _random.seed(len(prefix) * 7919 + sum(prefix))     # if the module bypasses the seam: still deterministic
    out = []
    try:
        op = ops.GenerateRandomAttribute()
        op.set_name(ATTR)
        if spec is not None and domkey.startswith('late-'):
            # the domain object is handed over first and gets its lists afterwards (Domain's own setters):
            # what counts is the domain as it is when execute() runs
            dom = Domain([Range(100, 101)], ['placeholder'])
            op.set_domain(dom)
            dom.set_range_list([Range(lo, hi) for (lo, hi) in spec[0]])
            dom.set_element_list(list(spec[1]))
        elif spec is not None:
            dom = Domain([Range(lo, hi) for (lo, hi) in spec[0]], list(spec[1]))
            op.set_domain(dom)
        op.set_only_leaf_features(leaves_only)
        try:
            op.execute(fm)
            engine.tick()
            raised = None
        except Divergence:
            raise
        except Exception as exc:  # noqa: BLE001
            raised = exc
    finally:
        for k, v in saved.items():
            setattr(gra, k, v)
    if spec is None:
        if raised is None:
            out.append(Fail('missing-domain-not-reported', None))
        elif not isinstance(raised, FlamaException):
            out.append(Fail('missing-domain-not-a-library-error:%s' % type(raised).__name__, str(raised)[:200]))
        if bd.observe(fm) != base:
            out.append(Fail('generation-mutated-on-error', None))
        return ctl, out
    if raised is not None:
        out.append(Fail('generation-raises:%s' % type(raised).__name__, str(raised)[:200]))
        return ctl, out
    try:
        now = ([(r.min_value, r.max_value) for r in dom.get_range_list()], list(dom.get_element_list()))
    except Exception as exc:  # noqa: BLE001
        now = repr(exc)
    if now != ([tuple(r) for r in spec[0]], list(spec[1])):
        out.append(Fail('generation-changed-the-domain-it-was-given', {'given': repr(spec)[:150], 'now': repr(now)[:150]}))
    ob = bd.observe(fm)
    gain = [n for n in targeted if n not in have]
    # expected shadow: gainers get one extra attribute (value checked separately)
    bad_values = []

    def strip(f, bf):
        attrs = f[5]
        if f[0] in gain:
            extra = attrs[len(bf[5]):]
            attrs = attrs[:len(bf[5])]
            if len(extra) != 1 or extra[0][0] != ATTR:
                bad_values.append((f[0], 'gained %r' % (extra,)))
            elif spec != ((), ()):
                try:
                    v = sh.thaw(extra[0][1])
                    if isinstance(v, dict) and v.get('__afm__'):
                        v = v['default']
                except ValueError:
                    v = extra[0][1]
                if not _value_ok(v, spec):
                    bad_values.append((f[0], v))
        if len(f[1]) != len(bf[1]) or any(len(r[2]) != len(br[2]) for r, br in zip(f[1], bf[1])):
            return f
        return (f[0], tuple((a, b, tuple(strip(k, bk) for k, bk in zip(kids, bkids)))
                            for (a, b, kids), (_x, _y, bkids) in zip(f[1], bf[1])), f[2], f[3], f[4], attrs)
    try:
        stripped = (strip(ob[0], base[0]), ob[1])
    except Exception as exc:  # noqa: BLE001
        out.append(Fail('generation-shape', str(exc)[:200]))
        return ctl, out
    if stripped != base:
        out.append(Fail('generation-changed-something-else', {'after': cm._safe_str(ob), 'choices': ctl.taken}))
    if bad_values:
        out.append(Fail('generated-value-outside-domain:%s' % domkey, {'values': repr(bad_values[:3]), 'choices': ctl.taken}))
    probs = bd.wellformed(fm)
    if probs:
        out.append(Fail('generation-breaks-wellformedness', probs[:3]))
    return ctl, out


def _explore(model, leaves_only, pre, domkey, bound):
    """Deviation-bounded stateless exploration of every choice sequence (0 = default answer)."""
    fails = {}
    executions = [0]

    def deviations(choices):
        return sum(1 for c in choices if c != 0)

    def explore(prefix):
        ctl, out = _run_generation(model, leaves_only, pre, domkey, prefix)
        executions[0] += 1
        for f in out:
            fails.setdefault(f.clause, f)
        if ctl is None:
            return
        if ctl.taken[:len(prefix)] != list(prefix):
            raise Divergence('replayed prefix diverged: %s vs %s' % (ctl.taken, prefix))
        for i in range(len(prefix), len(ctl.points)):
            if deviations(ctl.taken[:i]) + 1 > bound:
                break
            for alt in range(1, len(ctl.points[i][1])):
                explore(ctl.taken[:i] + [alt])
    explore([])
    # determinism: the default execution replayed twice gives identical observations
    c1, o1 = _run_generation(model, leaves_only, pre, domkey, [])
    c2, o2 = _run_generation(model, leaves_only, pre, domkey, [])
    if c1 is not None and (c1.taken != c2.taken or [f.clause for f in o1] != [f.clause for f in o2]):
        raise Divergence('default execution is not deterministic')
    if c1 is not None and not c1.points and DOMAINS[domkey] not in (None, ((), ())) \
            and any(n not in _expected_targets(model, leaves_only, pre)[1] for n in _expected_targets(model, leaves_only, pre)[0]):
        # values were generated without a single call through the seam (the module no longer
        # uses `random.<fn>`): the choice sequences cannot be enumerated; fall back to a fixed
        # list of seeds of the global generator and only judge the values (not exhaustive).
        for k in range(1, 25):
            _c, o = _run_generation(model, leaves_only, pre, domkey, [0] * k)
            executions[0] += 1
            for f in o:
                fails.setdefault(f.clause, f)
    engine.validated(executions[0])
    return list(fails.values())


def _check_edit_history(opname, model):
    from .c03 import inplace_edits
    out = []
    for (what, edit, em) in inplace_edits(model):
        fm, fails = cm.built(model)
        if fails:
            return fails
        op = getattr(ops, opname)()
        try:
            _exec(op, opname, fm)
            cm.checked_edit(fm, edit, model, em, what)
            got = _canon(_exec(op, opname, fm, raw=True))
            fresh = _canon(_exec(getattr(ops, opname)(), opname, bd.build(em), raw=True))
        except AssertionError:
            raise
        except Exception as exc:  # noqa: BLE001
            return [Fail('edit-history-raises:%s' % type(exc).__name__, {'edit': what, 'msg': str(exc)[:200]})]
        if got != fresh:
            out.append(Fail('result-stale-after-inplace-edit', {'op': opname, 'edit': what, 'got': repr(got)[:200], 'fresh': repr(fresh)[:200]}))
            break
    return out


def check(case):
    if case[0] == 'HE':
        return _check_edit_history(case[1], case[2])
    if case[0] == 'HF':
        return _check_failure_history(case[1], case[2])
    if case[0] == 'XT':
        return _check_overlap(case[1], case[2], case[3], case[4])
    if case[0] == 'H':
        return _check_history(case[1], case[2])
    if case[0] == 'X':
        return _check_cross(case[1], case[2], case[3])
    return _explore(case[1], case[2], case[3], case[4], case[5])


def outcome(case):
    return case[0] + ':' + str(case[1] if case[0] != 'G' else case[4])
