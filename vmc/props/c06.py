"""C06 - AFM round trip returns the same model, at any number of cycles."""
from __future__ import annotations

from flamapy.metamodels.fm_metamodel.transformations import AFMReader, AFMWriter

from .. import build as bd
from .. import sem
from .. import shadow as sh
from .. import space as sp
from . import common as cm
from . import rt

ID = 'C06'
BOUNDS = {'quick': 4, 'thorough': 6}
OPS = tuple(o for o in sh.LOGICAL if o != 'XOR')
WORDS = ('A', 'Ab1', 'ABC', 'AbCd', 'Z9', 'Integerx', 'ANDx', 'Tob', 'A' + 'b' * 99, 'Q' + '9' * 79 + 'z', 'X' * 81)
ATTR_NAMES = ('att', 'cost2', 'a', 'tox')


def afm_attr_alphabet():
    A = bd.afm_attr
    return [
        ('att', A([(0, 5)], [], '3', '0')),
        ('att', A([(0, 5), (10, 20)], [], '12', '0')),
        ('cost2', A([(7, 7)], [], '7', '7')),
        ('att', A([], ['a', 'b', 'c'], 'a', 'c')),
        ('att', A([], ['1', '2'], '1', '2')),
        ('att', A([], ['"s"'], '"s"', '"s"')),
        ('a', A([], ['Abc', 'x1'], 'Abc', 'x1')),
        ('tox', A([(0, 100)], [], '0', '100')),
        ('big', A([(2 ** 53 + 1, 2 ** 63 - 1)], [], str(2 ** 53 + 1), str(2 ** 63 - 1))),
        ('att', A([], ['"a b"', '"c, d"'], '"a b"', '"c, d"')),
        ('att', A([], ['"a  b"', '"c   d "'], '"a  b"', '"c   d "')),
        ('att', A([], ['"a\r\nb"', '"\r"', '"\n"'], '"\r"', '"\n"')),
        ('att', A([], ['"tab\there"', '"a\rb"'], '"a\rb"', '"tab\there"')),
    ]


class AFMFormat(rt.Format):
    name = 'afm'
    ext = 'afm'
    fields = ('attrs',)

    writer_cls = AFMWriter
    reader_cls = AFMReader

    def write(self, fm, path):
        return AFMWriter(path, fm).transform()

    def read(self, path):
        return AFMReader(path).transform()


FMT = AFMFormat()


def in_fragment(m):
    """Single children (1,1)/(0,1) and [a,b] groups (>= 2 children), any mix per parent."""
    for (_p, a, b, k) in sh.relations(m):
        if len(k) == 1 and (a, b) not in ((1, 1), (0, 1)):
            return False
    return True


def _level1():
    devs = [('name', w) for w in WORDS]
    devs += [('attr', av) for av in afm_attr_alphabet()]
    return devs


def _level2():
    al = afm_attr_alphabet()
    return [('name', 'Ab1'), ('name', 'ABC'), ('attr', al[0]), ('attr', al[1]), ('attr', al[3]), ('attr', al[6])]


def _spines(names):
    reps = [t for t in cm.k2_subset(tuple(names)) if 'XOR' not in sh.tree_ops(t)][::2]
    x = names[0]
    out = []
    for op in OPS[1:]:
        for t in reps:
            out.append((op, t, x))
            out.append((op, x, t))
    for t in reps:
        out.append(('NOT', t, None))
    return out


def cases(tier, seed):
    for m in sp.structures_upto(BOUNDS[tier]):
        if in_fragment(m):
            yield ('S', m)
    carriers1 = [m for m in sp.structures_upto(3 if tier == 'quick' else 4) if in_fragment(m)]
    carriers2 = [m for m in sp.structures_upto(2 if tier == 'quick' else 3) if in_fragment(m)]
    seen = set()
    for m in rt.dev_space(carriers1, _level1(), []):
        if m not in seen:
            seen.add(m)
            yield ('D', m)
    for m in rt.dev_space(carriers2, [], _level2()):
        if m not in seen:
            seen.add(m)
            yield ('D', m)
    names = ['x', 'y'] if tier == 'quick' else ['x', 'y', 'z']
    for t in sp.trees(2, names, OPS):
        yield ('K', cm.on_carrier([t]))
    for t in _spines(['x', 'y', 'z']):
        yield ('K', cm.on_carrier([t]))
    from . import families
    for m in families.models():
        if in_fragment(m):
            yield ('S', m)
    import re
    for m in rt.collision_models():
        if in_fragment(m) and all(re.fullmatch(r'[A-Z][A-Za-z0-9_]*', n) for n in sh.names(m)) and \
                not any('EXCLUDES' in sh.tree_ops(t) and isinstance(t[1], tuple) for _n, t in m[1]):
            yield ('D', m)
    for t in families.long_chains():
        yield ('K', cm.on_carrier([t]))
    for t in families.deep_trees():
        if 'XOR' not in sh.tree_ops(t):
            yield ('K', cm.on_carrier([t]))
    casey = sh.M(sh.F('Fa', [sh.R(0, 1, [sh.F('Wifi')]), sh.R(0, 1, [sh.F('WIFI')]), sh.R(0, 1, [sh.F('Ab')]), sh.R(0, 1, [sh.F('AB')])]),
                 [('c1', ('REQUIRES', 'Wifi', 'Ab')), ('c2', ('REQUIRES', 'WIFI', 'AB')), ('c3', ('REQUIRES', 'Wifi', 'Ab'))])
    yield ('K', casey)
    k1 = [t for t in cm.k1() if 'XOR' not in sh.tree_ops(t)]
    step = 5 if tier == 'quick' else 2
    for t1 in k1[::step]:
        for t2 in k1[::step]:
            yield ('K', cm.on_carrier([t1, t2]))


def plan(tier):
    return {
        'chunk': 150,
        'bounds': 'S<=%d in the AFM fragment (single (1,1)/(0,1) children and [a,b] groups, any mix per parent); WORD names and '
                  'the attribute alphabet (integer ranges, several ranges, enumerated domains, default/null) at every position of '
                  'small carriers, representatives on pairs; all constraint trees depth<=2 over %d names without XOR + depth-3 '
                  'spines, pairs from K_1^3; 2 cycles' % (BOUNDS[tier], 2 if tier == 'quick' else 3),
        'rule': 'write -> read -> write -> read on every state; names, order-insensitive tree, attributes (name, ranges as ints, '
                'elements, default, null), one-to-one logical equivalence of constraints, generation fix-points; non-trivial = '
                'group, attribute or constraint',
        'assumptions': ['attribute elements/default/null are compared as the token text the AFM reader returns'],
    }


describe = cm.describe_model_case


def reduce(case):
    for c in cm.reduce_model_case(case):
        if in_fragment(c[1]) and not any('XOR' in sh.tree_ops(t) for _n, t in c[1][1]):
            yield c


def normalize(case):
    return (case[0], sh.normalize_names(case[1], sp.NAME_POOL))


def nontrivial(case):
    return not cm.is_plain(case[1]) or cm.has_group_or_ctc(case[1])


def selftest():
    sem.selftest()


def check(case):
    return rt.roundtrip(FMT, case[1], cycles=2)


def outcome(case):
    return case[0]
