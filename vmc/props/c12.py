"""C12 - serialisation is pure, deterministic and returns what it wrote."""
from __future__ import annotations

import json
import os
import subprocess
import sys

from flamapy.metamodels.fm_metamodel.transformations import (
    AFMReader, AFMWriter, ClaferWriter, FeatureIDEReader, FeatureIDEWriter, GlencoeReader, GlencoeWriter,
    JSONReader, JSONWriter, SPLOTWriter, UVLReader, UVLWriter)
from flamapy.metamodels.fm_metamodel.transformations.pl_writer import PLWriter

from .. import build as bd
from .. import engine, sem
from .. import shadow as sh
from .. import space as sp
from ..engine import Fail
from . import common as cm
from .c19 import _full_snapshot

ID = 'C12'
WRITERS = {'uvl': UVLWriter, 'afm': AFMWriter, 'json': JSONWriter, 'glencoe': GlencoeWriter,
           'featureide': FeatureIDEWriter, 'splot': SPLOTWriter, 'clafer': ClaferWriter, 'pl': PLWriter}
READERS = {'uvl': UVLReader, 'json': JSONReader, 'glencoe': GlencoeReader, 'featureide': FeatureIDEReader, 'afm': AFMReader}
BOUNDS = {'quick': 4, 'thorough': 5}
SEEDS = {'quick': (0, 1, 2), 'thorough': tuple(range(16))}
LOCALES = {
    'C-ascii': {'LC_ALL': 'C', 'PYTHONCOERCECLOCALE': '0', 'PYTHONUTF8': '0'},
    'POSIX': {'LC_ALL': 'POSIX', 'PYTHONCOERCECLOCALE': '0', 'PYTHONUTF8': '0'},
    'C.utf8': {'LC_ALL': 'C.utf8'},
    'utf8-mode': {'LC_ALL': 'C', 'PYTHONUTF8': '1'},
}
QUICK_LOCALES = ('C-ascii', 'C.utf8')


def _ctc_set():
    x, y, z = cm.XYZ
    return [None, ('REQUIRES', x, y), ('EXCLUDES', x, y), ('IMPLIES', x, ('NOT', y, None)), ('XOR', x, y),
            ('EQUIVALENCE', x, ('AND', y, z)), ('OR', ('NOT', x, None), ('AND', y, z)), ('AND', ('OR', x, y), ('OR', y, z)),
            ('NOT', ('AND', x, ('OR', y, z)), None), ('XOR', ('AND', x, y), z), ('IMPLIES', ('XOR', x, y), z),
            ('EQUIVALENCE', ('EQUIVALENCE', x, y), z), ('EXCLUDES', ('OR', x, y), z), ('REQUIRES', x, ('XOR', y, z)),
            x, ('NOT', x, None), ('OR', ('AND', x, y), ('AND', ('NOT', x, None), z)), ('AND', x, ('AND', y, z)),
            ('OR', x, ('OR', y, z)), ('IMPLIES', ('IMPLIES', x, y), z), ('NOT', ('NOT', x, None), None)]


def _purity_only_models():
    """Attribute values no format has a notation for (non-finite floats, alone and inside containers): a
    writer may refuse them or write something, but must not touch the model."""
    F, R, M = sh.F, sh.R, sh.M
    inf = float('inf')
    return [M(F('Fa', [R(0, 1, [F('Bb', attrs=[('big', sh.freeze([1.5, inf])), ('neg', sh.freeze({'k': -inf, 'l': [inf]})), ('s', sh.freeze(inf))])])],
                attrs=[('lst', sh.freeze([[inf, 1], 2]))])),
            M(F('Fa', attrs=[('v', sh.freeze([inf]))]))]


def _special_models():
    F, R, M = sh.F, sh.R, sh.M
    wide = ['ñu', '日本', 'Zeta9', 'alpha', 'Bb', 'omega_3']
    out = []
    for card in ((1, 1), (1, 6), (0, 1), (2, 4)):
        out.append(M(F('Fa', [R(card[0], card[1], [F(n) for n in wide])])))
    out.append(M(F('Ünï', [R(1, 1, [F('ä')]), R(0, 1, [F('a b')]), R(1, 3, [F('Cc'), F('Dd'), F('Ee')])]),
                 [('c1', ('REQUIRES', 'ä', 'Cc')), ('c2', ('XOR', 'Dd', 'a b'))]))
    out.append(M(F('Fa', [R(0, 1, [F('Gg'), F('Hh'), F('Ii'), F('Jj')]), R(2, 3, [F('Kk'), F('Ll'), F('Mm'), F('Nn')])])))
    # names that are not in Unicode normal form C
    out.append(M(F('Cafe\u0301', [R(1, 2, [F('\u212bb'), F('e\u0300x'), F('Zz')])]), [('c1', ('REQUIRES', '\u212bb', 'Zz'))]))
    # attributes: AFM-style domains with unsorted intervals / elements, and plain values of every kind
    A = bd.afm_attr
    out.append(M(F('Fa', [R(1, 1, [F('Bb', attrs=[('att', A([(20, 30), (3, 10), (12, 15)], [], '25', '3')), ('lab', A([], ['zz', 'aa', 'mm'], 'mm', 'zz'))])]),
                          R(0, 1, [F('Dc', attrs=[('cost', A([(5, 5)], [], '5', '5'))])])])))
    fz = sh.freeze
    out.append(M(F('Fa', [R(1, 1, [F('Bb', attrs=[('lst', fz([3, 1, 2, 'b', 'a'])), ('map', fz({'z': 1, 'a': {'y': 2, 'b': 3}})), ('s', fz('text')),
                                                   ('n', fz(None)), ('t', fz(True)), ('r', fz(2.5))])]),
                          R(0, 1, [F('Dc', abstract=True, ftype='Integer', fcard=(0, 3))])])))
    return out


def env_battery(size):
    F, R, M = sh.F, sh.R, sh.M
    # the first and the last model use the pool names with different group kinds / cardinalities, so
    # that whatever a process remembers by name differs with the order of serialisation
    first = M(F('Fa', [R(1, 1, [F('Bb', [R(0, 1, [F('Dc'), F('Ad')])]), F('Ee')])]), [('c1', ('REQUIRES', 'Bb', 'Ee'))])
    last = M(F('Fa', [R(1, 2, [F('Bb', [R(2, 2, [F('Dc'), F('Ad')])]), F('Ee')])]), [('c1', ('EXCLUDES', 'Bb', 'Ee'))])
    models = [first] + list(sp.structures_upto(3)) + _special_models()
    models += [cm.on_carrier([t]) for t in _ctc_set()[1:8]]
    if size == 'large':
        models += [m for m in sp.structures(4)][::3]
    return models + [last]


def readable(writer, model):
    """Is the written file expected to be readable by the format's reader (used only for the
    non-ASCII read-back clause)?"""
    if writer == 'afm':
        return False
    return not model[1] and all(sem.kind(a, b, len(k)) in ('mandatory', 'optional', 'or', 'alternative')
                                for (_p, a, b, k) in sh.relations(model)) \
        and all(len([k for k in f[1] if len(k[2]) > 1]) <= 1 and (len(f[1]) == 1 or all(len(k[2]) == 1 for k in f[1]))
                for f in sh.features(model))


def cases(tier, seed):
    ctcs = _ctc_set()
    for m in sp.structures_upto(BOUNDS[tier]):
        for w in WRITERS:
            yield ('W', w, m)
    for n in (3, 4):
        for m in sp.structures(n):
            for t in ctcs[1:]:
                mm = cm.with_ctc(m, t)
                for w in WRITERS:
                    yield ('W', w, mm)
    from . import families
    for m in list(_special_models()) + list(families.models()) + _purity_only_models():
        for w in WRITERS:
            yield ('W', w, m)
    for t in families.deep_trees():
        for w in WRITERS:
            yield ('W', w, cm.on_carrier([t]))
    from . import rt
    for m in list(rt.collision_models()) + [x for x in sp.structures_upto(3, star=True) if any(b == -1 for (_p, _a, b, _k) in sh.relations(x))]:
        for w in WRITERS:
            yield ('W', w, m)
    # the interpreter's recursion limit is part of the environment too: deep models written under two limits
    for w in WRITERS:
        for depth in (300, 920):
            yield ('RL', w, depth)
    seeds = SEEDS[tier]
    locs = QUICK_LOCALES if tier == 'quick' else tuple(LOCALES)
    rot = seed % len(seeds)
    seeds = seeds[rot:] + seeds[:rot]
    for s in seeds:
        for loc in locs:
            for w in WRITERS:
                yield ('ENV', w, s, loc, 'small' if tier == 'quick' else 'large')


def plan(tier):
    return {
        'chunk': 24,
        'bounds': 'in-process: S<=%d x 8 writers, S in 3..4 x 20 constraint trees (every operator) x 8 writers, models with '
                  'non-ASCII / multi-character names in groups of 4-6; cross-process: PYTHONHASHSEED in %s x locale configs %s '
                  'x 8 writers on a fixed battery' % (BOUNDS[tier], list(SEEDS[tier]), list(QUICK_LOCALES if tier == 'quick' else LOCALES)),
        'rule': 'W cases: deep snapshot (shadow form + AST node identities) unchanged by transform(), three consecutive calls '
                'give identical output, returned value == file content (decoded as UTF-8; bytes for FeatureIDE); ENV cases: a '
                'fresh interpreter per configuration serialises the battery, every (model, writer) digest must equal the '
                'digest computed in the reference process, non-ASCII names must survive write -> read there; non-trivial = all',
        'assumptions': ['hash seed / locale / default encoding are enumerated as configurations (fresh interpreters); only the '
                        'locales present on the image (C, POSIX, C.utf8) can be used'],
    }


def describe(case):
    if case[0] == 'W':
        return 'W:%s | %s' % (case[1], sh.model_str(case[2]))
    if case[0] == 'RL':
        return 'RL:%s, chain of %d with two side trees, recursion limits default / 30000' % (case[1], case[2])
    return 'ENV:%s seed=%s locale=%s battery=%s' % tuple(case[1:5])


def reduce(case):
    if case[0] == 'RL':
        return
    if case[0] == 'W':
        for m in sh.reductions(case[2], sp.NAME_POOL):
            yield ('W', case[1], m)


def nontrivial(case):
    return True


def selftest():
    sem.selftest()


def _content(path, ret):
    data = open(path, 'rb').read()
    if isinstance(ret, bytes):
        return data, data == ret
    try:
        return data, data.decode('utf8') == ret
    except UnicodeDecodeError:
        return data, False


def _check_recursion_limit(wname, depth):
    """A chain of `depth` mandatory features with a second and third sub-tree at the top, written under the
    default recursion limit and under a much higher one: same bytes (a writer that runs out of stack
    under the default limit is not judged)."""
    from flamapy.metamodels.fm_metamodel.models import Feature, FeatureModel, Relation

    def build_deep():
        feats = [Feature('N%d' % i, []) for i in range(depth)]
        for i in range(depth - 1):
            feats[i].add_relation(Relation(feats[i], [feats[i + 1]], 1, 1))
        for tag in ('Ya', 'Xb'):
            side = Feature(tag, [])
            side.add_relation(Relation(side, [Feature(tag + '1', []), Feature(tag + '2', [])], 1, 1))
            feats[0].add_relation(Relation(feats[0], [side], 0, 1))
        return FeatureModel(feats[0], [])
    W = WRITERS[wname]
    path = engine.tmppath('c12rl.' + wname)
    outs = []
    old = sys.getrecursionlimit()
    try:
        for limit in (old, 30000):
            sys.setrecursionlimit(limit)
            try:
                ret = W(path, build_deep()).transform()
                outs.append(_content(path, ret)[0])
            except RecursionError:
                outs.append(None)
            except Exception:  # noqa: BLE001   a writer that cannot express the model
                return []
            engine.tick()
    finally:
        sys.setrecursionlimit(old)
    if outs[0] is not None and outs[1] is not None and outs[0] != outs[1]:
        return [Fail('output-depends-on-recursion-limit:' + wname, {'depth': depth})]
    engine.validated()
    return []


def _check_writer(wname, model):
    fm, fails = cm.built(model)
    if fails:
        return fails
    out = []
    W = WRITERS[wname]
    before = _full_snapshot(fm)
    outputs = []
    path = engine.tmppath('c12.' + wname)
    for i in range(3):
        try:
            ret = W(path, fm).transform()
            engine.note(ret)
            engine.tick()
        except Exception:  # noqa: BLE001   a writer that cannot express the model: not C12's subject
            return out
        data, same = _content(path, ret)
        if not same:
            out.append(Fail('return!=file:' + wname, {'call': i}))
        outputs.append(data)
        after = _full_snapshot(fm)
        probs = bd.wellformed(fm)
        if probs:
            out.append(Fail('writer-mutates-model:' + wname, {'call': i, 'tree no longer well-formed': probs[:3]}))
            break
        if after[0] != before[0] or after[1] != before[1]:
            out.append(Fail('writer-mutates-model:' + wname, {'call': i, 'after': cm._safe_str(after[0])}))
            break
    if len(set(outputs)) > 1:
        out.append(Fail('repeated-calls-differ:' + wname, None))
    # a second, independently built copy must serialise identically (function of the model alone)
    try:
        ret2 = W(path, bd.build(model)).transform()
        data2, _s = _content(path, ret2)
        if outputs and data2 != outputs[0]:
            out.append(Fail('independent-copy-differs:' + wname, None))
    except Exception:  # noqa: BLE001
        pass
    # one writer object across an in-place edit of its model, and after a transform that raised:
    # the text is a function of the model as it is when transform() runs
    if not out and outputs and sh.size(model) <= 4:
        out.extend(_writer_histories(W, wname, model, path, outputs[0]))
    if not out and outputs and (sh.size(model) <= 2 or model[1]) and sh.size(model) <= 4:
        out.extend(_path_histories(W, wname, model, outputs[0]))
    try:
        os.remove(path)
    except OSError:
        pass
    return out


def _path_histories(W, wname, model, text0):
    """The text does not depend on where it is written: a bare relative file name, a relative path
    with a folder, names with blanks and non-ASCII characters, and destinations that already exist
    (same text with CR LF line ends, same text followed by more, empty).  text0: bytes/str written to
    the ordinary scratch path."""
    import shutil
    base = engine.tmppath('paths_%s' % wname)
    os.makedirs(os.path.join(base, 'sub dir'), exist_ok=True)
    old_cwd = os.getcwd()
    raw0 = text0 if isinstance(text0, bytes) else text0.encode('utf8')
    shapes = [('bare relative name', 'model.' + wname, None),
              ('bare relative name with a blank', 'my model.' + wname, None),
              ('relative path with a folder', os.path.join('sub dir', 'm\u00fcller \u65e5.' + wname), None),
              ('absolute path with blanks and non-ASCII characters', os.path.join(base, 'sub dir', 'a b \u00e9.' + wname), None),
              ('existing file: same text with CR LF line ends', 'exists1.' + wname, raw0.replace(b'\n', b'\r\n')),
              ('existing file: same text followed by more', 'exists2.' + wname, raw0 + b'\nleft over from an earlier, longer model\n'),
              ('existing file: same text with CR line ends', 'exists3.' + wname, raw0.replace(b'\n', b'\r')),
              ('existing file: empty', 'exists4.' + wname, b'')]
    try:
        os.chdir(base)
        for what, p, pre in shapes:
            if pre is not None:
                with open(p, 'wb') as fh:
                    fh.write(pre)
            try:
                ret = W(p, bd.build(model)).transform()
                engine.tick()
            except Exception as exc:  # noqa: BLE001
                return [Fail('destination-dependent:raises:%s:%s' % (wname, type(exc).__name__), {'destination': what, 'msg': str(exc)[:200]})]
            data, same = _content(p, ret)
            if not same:
                return [Fail('return!=file:' + wname, {'destination': what})]
            if data != text0:
                return [Fail('destination-dependent:' + wname, {'destination': what})]
    finally:
        os.chdir(old_cwd)
        shutil.rmtree(base, ignore_errors=True)
    return []


def _writer_histories(W, wname, model, path, text0):
    from .c03 import inplace_edits
    edits = inplace_edits(model)
    step = max(1, len(edits) // 5)
    chosen = [e for e in edits if e[0].startswith('constraint ') or e[0].startswith('remove ')] + edits[::step]
    for (what, edit, em) in chosen:
        try:
            want = _content(path, W(path, bd.build(em)).transform())[0]
        except Exception:  # noqa: BLE001   (the edited model is outside what this writer can express)
            continue
        fm = bd.build(model)
        wr = W(path, fm)
        try:
            wr.transform()
            cm.checked_edit(fm, edit, model, em, what)
            got = _content(path, wr.transform())[0]
            got2 = _content(path, W(path, fm).transform())[0]
            engine.tick(4)
        except AssertionError:
            raise
        except Exception as exc:  # noqa: BLE001
            return [Fail('writer-history-raises:%s:%s' % (wname, type(exc).__name__), {'edit': what, 'msg': str(exc)[:200]})]
        if got != want:
            return [Fail('same-writer-after-inplace-edit:' + wname, {'edit': what})]
        if got2 != want:
            return [Fail('fresh-writer-after-inplace-edit:' + wname, {'edit': what})]
    for p, _f in list(sh._paths(model[0]))[1:]:
        fm = bd.build(model)
        wr = W(path, fm)
        obj = fm.root
        for (ri, ci) in p[:-1]:
            obj = obj.relations[ri].children[ci]
        ri, ci = p[-1]
        kids = obj.relations[ri].children
        good = kids[ci]
        kids[ci] = None
        try:
            wr.transform()
            failed = False
        except Exception:  # noqa: BLE001
            failed = True
        kids[ci] = good
        engine.tick()
        if not failed:
            continue
        try:
            got = _content(path, wr.transform())[0]
            got2 = _content(path, W(path, bd.build(model)).transform())[0]
        except Exception as exc:  # noqa: BLE001
            return [Fail('writer-history-raises:%s:%s' % (wname, type(exc).__name__), {'after': 'a transform that raised', 'msg': str(exc)[:200]})]
        if got != text0:
            return [Fail('same-writer-after-failed-transform:' + wname, None)]
        if got2 != text0:
            return [Fail('fresh-writer-after-failed-transform:' + wname, None)]
    return []


_REF = {}


def _run_env(writer, size, env_extra, order='forward'):
    env = dict(os.environ)
    for k in ('LC_ALL', 'LANG', 'LC_CTYPE', 'PYTHONUTF8', 'PYTHONCOERCECLOCALE', 'PYTHONIOENCODING'):
        env.pop(k, None)
    env.update(env_extra)
    env['PYTHONPATH'] = engine.VERIF + os.pathsep + env.get('PYTHONPATH', '')
    proc = subprocess.run([sys.executable, '-m', 'vmc.envworker', writer, size, order], env=env, cwd=engine.VERIF,
                          stdout=subprocess.PIPE, stderr=subprocess.PIPE, timeout=600)
    engine.tick()
    if proc.returncode != 0:
        raise RuntimeError('envworker failed: %s' % proc.stderr.decode('utf8', 'replace')[-400:])
    return json.loads(proc.stdout.decode('utf8'))


_ENV_CACHE = {}


def _check_env(writer, seed, loc, size):
    ck = (writer, seed, loc, size)
    if ck not in _ENV_CACHE:
        if len(_ENV_CACHE) > 50:
            _ENV_CACHE.clear()
        _ENV_CACHE[ck] = _check_env_uncached(writer, seed, loc, size)
    return _ENV_CACHE[ck]


def _check_env_uncached(writer, seed, loc, size):
    key = (writer, size)
    if key not in _REF:
        _REF[key] = _run_env(writer, size, {'PYTHONHASHSEED': '0', 'LC_ALL': 'C.utf8'})
    ref = _REF[key]
    env = dict(LOCALES[loc])
    env['PYTHONHASHSEED'] = str(seed)
    # every other configuration serialises the battery in another order: output that depends on what
    # the process serialised before (a cache keyed by names) shows as a digest mismatch
    got = _run_env(writer, size, env, ('forward', 'reverse', 'interleaved')[seed % 3])
    engine.validated()
    out = []
    battery = env_battery(size)
    for i, (a, b) in enumerate(zip(ref['digests'], got['digests'])):
        if a != b:
            out.append(Fail('output-differs-across-environments:' + writer,
                            {'model': sh.model_str(battery[i]), 'reference': a, 'here': b, 'encoding': got['encoding']}))
            break
    for (i, a), (_j, b) in zip(ref['readback'], got['readback']):
        if a != b:
            out.append(Fail('readback-differs-across-environments:' + writer,
                            {'model': sh.model_str(battery[i]), 'reference': a, 'here': b, 'encoding': got['encoding']}))
            break
    # non-ASCII names survive write -> read in this environment
    for (i, digest) in got['readback']:
        import hashlib
        want = hashlib.sha256(repr(sorted(sh.names(battery[i]))).encode('utf8')).hexdigest()[:16]
        if digest != want:
            out.append(Fail('names-do-not-survive:' + writer, {'model': sh.model_str(battery[i]), 'got': digest,
                                                               'encoding': got['encoding']}))
            break
    return out, got


def check(case):
    if case[0] == 'W':
        return _check_writer(case[1], case[2])
    if case[0] == 'RL':
        return _check_recursion_limit(case[1], case[2])
    out, _got = _check_env(case[1], case[2], case[3], case[4])
    return out


def outcome(case):
    if case[0] == 'W':
        return 'W:' + case[1]
    if case[0] == 'RL':
        return 'RL'
    _out, got = _check_env(case[1], case[2], case[3], case[4])
    return 'ENV-order:' + str(got['probe_order'])
