"""C17 - metrics report is total, self-consistent and agrees with the operations."""
from __future__ import annotations

import itertools
import re
import statistics

from flamapy.metamodels.fm_metamodel.operations import (
    FMAverageBranchingFactor, FMLeafFeatures, FMMaxDepthTree, FMMetrics)

from .. import engine, sem
from .. import shadow as sh
from .. import space as sp
from ..engine import Fail
from . import common as cm
from .c03 import _ref_ctc_kinds

ID = 'C17'
BOUNDS = {'quick': (5, 4, 4), 'thorough': (6, 4, 5)}   # plain S, abstract-flag carriers, ctc carriers

METRICS = {
    'features': 'Features', 'abstract_features': 'Abstract features', 'concrete_features': 'Concrete features',
    'leaf_features': 'Leaf features', 'compound_features': 'Compound features',
    'concrete_compound_features': 'Concrete compound features', 'concrete_leaf_features': 'Concrete leaf features',
    'abstract_compound_features': 'Abstract compound features', 'abstract_leaf_features': 'Abstract leaf features',
    'tree_relationships': 'Tree relationships', 'root_feature': 'Root feature', 'top_features': 'Top features',
    'solitary_features': 'Solitary features', 'grouped_features': 'Grouped features',
    'mandatory_features': 'Mandatory features', 'optional_features': 'Optional features',
    'feature_groups': 'Feature groups', 'alternative_groups': 'Alternative groups', 'or_groups': 'Or groups',
    'mutex_groups': 'Mutex groups', 'cardinality_groups': 'Cardinality groups', 'branching_factor': 'Branching factor',
    'min_children_per_feature': 'Min children per feature', 'max_children_per_feature': 'Max children per feature',
    'avg_children_per_feature': 'Avg children per feature', 'depth_tree': 'Depth of tree',
    'max_depth_tree': 'Max depth of tree', 'mean_depth_tree': 'Mean depth of tree',
    'median_depth_tree': 'Median depth of tree', 'cross_tree_constraints': 'Cross-tree constraints',
    'simple_constraints': 'Simple constraints', 'requires_constraints': 'Requires constraints',
    'excludes_constraints': 'Excludes constraints', 'complex_constraints': 'Complex constraints',
    'pseudo_complex_constraints': 'Pseudo-complex constraints', 'strict_complex_constraints': 'Strict-complex constraints',
    'min_constraints_per_feature': 'Min constraints per feature', 'max_constraints_per_feature': 'Max constraints per feature',
    'avg_constraints_per_feature': 'Avg constraints per feature',
    'extra_constraint_representativeness': 'Features in constraints',
}
# ratio of <metric> = size / size(<reference listing>)   (precision)
RATIO_OF = {
    'Abstract features': ('Features', 4), 'Concrete features': ('Features', 4), 'Leaf features': ('Features', 4),
    'Compound features': ('Features', 4), 'Concrete compound features': ('Concrete features', 4),
    'Concrete leaf features': ('Concrete features', 4), 'Abstract compound features': ('Abstract features', 4),
    'Abstract leaf features': ('Abstract features', 4), 'Root feature': ('Features', 4), 'Top features': ('Features', 4),
    'Solitary features': ('Features', 4), 'Grouped features': ('Features', 4),
    'Mandatory features': ('Solitary features', 4), 'Optional features': ('Solitary features', 4),
    'Feature groups': ('Tree relationships', 4), 'Alternative groups': ('Feature groups', 4),
    'Or groups': ('Feature groups', 4), 'Mutex groups': ('Feature groups', 4), 'Cardinality groups': ('Feature groups', 4),
    'Simple constraints': ('Cross-tree constraints', 4), 'Complex constraints': ('Cross-tree constraints', 4),
    'Requires constraints': ('Simple constraints', 4), 'Excludes constraints': ('Simple constraints', 4),
    'Pseudo-complex constraints': ('Complex constraints', 4), 'Strict-complex constraints': ('Complex constraints', 4),
    'Features in constraints': ('Features', 2),
}
METHOD_NAMES = sorted(METRICS)


def _flagged(m, subset):
    def rec(f):
        return (f[0], tuple((a, b, tuple(rec(k) for k in kids)) for (a, b, kids) in f[1]),
                f[0] in subset, f[3], f[4], f[5])
    return (rec(m[0]), m[1])


def _history_alphabet():
    ms = list(sp.structures_upto(3))
    ms.append(cm.on_carrier([('REQUIRES', 'x', 'y')]))
    ms.append(cm.on_carrier([('AND', 'x', ('OR', 'y', 'z')), ('EXCLUDES', 'x', 'z')]))
    ms.append(cm.on_carrier([('IMPLIES', 'x', ('EQUIVALENCE', 'y', 'z')), ('NOT', ('XOR', 'x', 'z'), None)]))
    ms.append(cm.on_carrier([('OR', ('OR', ('AND', 'x', 'y'), 'z'), 'x'), ('AND', ('OR', 'x', ('OR', 'y', ('AND', 'z', 'x'))), 'y')]))
    ms.append(_flagged(sh.M(sh.F('Fa', [sh.R(1, 2, [sh.F('Bb'), sh.F('Dc')]), sh.R(1, 1, [sh.F('Ad')])])), {'Fa', 'Dc'}))
    return ms


def cases(tier, seed):
    n_s, n_abs, n_ctc = BOUNDS[tier]
    for m in sp.structures_upto(n_s):
        yield ('M', m)
    for n in range(1, n_abs + 1):
        for m in sp.structures(n):
            nm = sh.names(m)
            for k in (1, 2):
                for subset in itertools.combinations(nm, k):
                    yield ('M', _flagged(m, set(subset)))
    from . import families
    for m in families.models():
        yield ('M', m)
    from . import rt as _rt
    for m in _rt.collision_models():
        yield ('M', m)
        yield ('M', (m[0], ()))
    for t in families.deep_trees():
        yield ('M', cm.on_carrier([t]))
    ksets = list(cm.k1()) + list(cm.k2_subset())
    for n in range(2, n_ctc + 1):
        for m in sp.structures(n):
            for t in ksets:
                yield ('M', cm.with_ctc(m, t))
    # feature names of every class, in the tree and as operands of constraints
    from . import rt
    for _cls, members in rt.NAME_CLASSES.items():
        for nm in members:
            if nm.startswith("'"):
                continue
            car = rt.rename(cm.CARRIER4, 1, nm)
            yield ('M', car)
            for t in (('REQUIRES', nm, 'Dc'), ('OR', ('NOT', 'Dc', None), nm), ('AND', nm, ('OR', 'Dc', 'Ad')), ('EXCLUDES', 'Ad', nm),
                      ('OR', nm, 'Dc'), ('XOR', nm, 'Dc'), ('IMPLIES', ('NOT', 'Ad', None), nm)):
                yield ('M', (car[0], (('c1', t),)))
    reps = [('REQUIRES', 'x', 'y'), ('EXCLUDES', 'x', 'y'), ('AND', ('IMPLIES', 'x', 'y'), ('IMPLIES', 'y', 'z')),
            ('OR', 'x', ('AND', 'y', 'z')), 'x', ('NOT', 'x', None), ('XOR', 'x', 'z'),
            ('EQUIVALENCE', 'y', ('NOT', 'z', None))]
    for t1 in reps:
        for t2 in reps:
            yield ('M', cm.on_carrier([t1, t2]))
    # constraints that share their name (also the empty name) but not their kind
    for t1 in reps:
        for t2 in reps:
            if t1 != t2:
                car = cm.on_carrier([t1, t2])
                for nm in ('c1', ''):
                    yield ('M', (car[0], tuple((nm, t) for _n, t in car[1])))
    # ratios near a rounding boundary: n features of which k occur in the constraints, n beyond 100
    sizes = (101, 111, 133, 150) if tier == 'quick' else tuple(range(101, 161))
    for n in sizes:
        leaves = ['L%d' % i for i in range(n - 1)]
        tree = sh.F('Fa', [sh.R(0, 1, [sh.F(x)]) for x in leaves])
        for k in range(1, 61):
            t = leaves[0]
            for x in leaves[1:k]:
                t = ('OR', t, x)
            yield ('MR', (tree, (('c1', t),)))
    # filters
    fmodels = [sh.M(sh.F('Fa')), cm.on_carrier([('REQUIRES', 'x', 'y'), ('OR', 'x', ('AND', 'y', 'z'))]),
               _flagged(sh.M(sh.F('Fa', [sh.R(1, 2, [sh.F('Bb'), sh.F('Dc')]), sh.R(1, 1, [sh.F('Ad')])])), {'Fa', 'Dc'})]
    pairs = list(itertools.combinations(METHOD_NAMES, 2))
    if tier == 'quick':
        pairs = pairs[::20]
    for fmod in fmodels:
        yield ('MF', fmod, ())
        yield ('MF', fmod, tuple(METHOD_NAMES))
        yield ('MF', fmod, ('no_such_metric',))
        for n in METHOD_NAMES:
            yield ('MF', fmod, (n,))
        for p in pairs:
            yield ('MF', fmod, tuple(p))
    for spec in families.BIG_SPECS:
        yield ('MB', spec)
    # analyse, edit the same model object in place, analyse again with the same FMMetrics object
    for m in sp.structures_upto(3 if tier == 'quick' else 4):
        yield ('ME', m)
    for t in list(cm.k1())[::2] + list(cm.k2_subset())[::3]:
        yield ('ME', cm.on_carrier([t]))
    # histories on one object
    alpha = _history_alphabet()
    if tier == 'quick':
        alpha = alpha[:4] + alpha[-5:] + alpha[10:14]
    maxlen = 2 if tier == 'quick' else 3
    for length in range(2, maxlen + 1):
        if length == 3:
            sub = alpha[:4] + alpha[-5:]
            seqs = itertools.product(sub, repeat=3)
        else:
            seqs = itertools.product(alpha, repeat=2)
        for seq in seqs:
            yield ('MH', tuple(seq))


def plan(tier):
    n_s, n_abs, n_ctc = BOUNDS[tier]
    return {
        'chunk': 100,
        'bounds': 'S<=%d plain; abstract flags on every <=2-subset of features of S<=%d; S in 2..%d x (K_1^3 + K_2 subset); '
                  '64 constraint pairs; filters: empty, full, unknown, each single name, %s pairs on 3 models; histories of '
                  'length <=%d on one FMMetrics object over the model alphabet' % (n_s, n_abs, n_ctc, 'every 20th of the' if tier == 'quick' else 'all', 2 if tier == 'quick' else 3),
        'rule': 'every state: report total, 40 names once each, size/ratio rules, split identities, every metric against its '
                'definition on the shadow, duplicates of stand-alone operations equal them; non-trivial = group, abstract flag, '
                'constraint, filter or history',
        'assumptions': ['metric names and reference listings as of the statement (table METRICS / RATIO_OF)'],
    }


def describe(case):
    if case[0] == 'MH':
        return 'MH:' + ' -> '.join(sh.model_str(m) for m in case[1])
    if case[0] == 'MB':
        return 'MB:%s' % (case[1],)
    if case[0] == 'ME':
        return 'ME:' + sh.model_str(case[1])
    if case[0] == 'MR':
        return 'MR:%d features (root with optional leaves), %d of them in the constraint' % (sh.size(case[1]), len(set(sh.tree_names(case[1][1][0][1]))))
    if case[0] == 'MF':
        return 'MF:%s | filter=%s' % (sh.model_str(case[1]), ','.join(case[2]))
    return cm.describe_model_case(case)


def reduce(case):
    if case[0] == 'M':
        yield from cm.reduce_model_case(case)
    elif case[0] == 'ME':
        for m in sh.reductions(case[1], sp.NAME_POOL):
            yield ('ME', m)
    elif case[0] == 'MF':
        for i in range(len(case[2])):
            yield ('MF', case[1], case[2][:i] + case[2][i + 1:])
        for m in sh.reductions(case[1], sp.NAME_POOL):
            yield ('MF', m, case[2])
    elif case[0] == 'MH':
        seq = case[1]
        if len(seq) > 2:
            for i in range(len(seq)):
                yield ('MH', seq[:i] + seq[i + 1:])
        for i, m in enumerate(seq):
            for r in sh.reductions(m, sp.NAME_POOL):
                yield ('MH', seq[:i] + (r,) + seq[i + 1:])


def nontrivial(case):
    return case[0] != 'M' or cm.has_group_or_ctc(case[1]) or any(f[2] for f in sh.features(case[1]))


def selftest():
    sem.selftest()
    assert len(METRICS) == 40


# ----------------------------------------------------------------------------- reference

_CTC_TEXT = {}


def _ctc_name(s):
    """Constraint listings hold str(constraint); map the text back to the constraint's name through
    the library's own str() of the analysed model's constraints (no assumption on its format)."""
    if s in _CTC_TEXT:
        return _CTC_TEXT[s]
    m = re.match(r'^\((.*?)\) ', s)
    return m.group(1) if m else s


def expected(model):
    feats = sh.features(model)
    names = [f[0] for f in feats]
    pm = sh.parent_map(model)
    rels = sh.relations(model)
    root = model[0][0]
    own_rel = {}
    for (p, a, b, ks) in rels:
        for k in ks:
            own_rel[k] = (a, b, len(ks))
    leaf = [f[0] for f in feats if not f[1]]
    compound = [f[0] for f in feats if f[1]]
    abstract = [f[0] for f in feats if f[2]]
    concrete = [f[0] for f in feats if not f[2]]
    depth = {}
    for n in names:
        depth[n] = 0 if pm[n] is None else depth[pm[n]] + 1
    leaf_depths = [depth[n] for n in leaf]
    nchildren = {f[0]: sum(len(ks) for (_a, _b, ks) in f[1]) for f in feats}

    def kinds(f):
        return [sem.kind(a, b, len(ks)) for (a, b, ks) in f[1]]
    groups = [f[0] for f in feats if any(len(ks) > 1 for (_a, _b, ks) in f[1])]
    ctc_kinds = [(n, _ref_ctc_kinds(t)) for n, t in model[1]]
    per_feature = [sum(1 for _n, t in model[1] if f in set(sh.tree_names(t))) for f in names]
    in_ctcs = set(x for _n, t in model[1] for x in sh.tree_names(t))
    exp = {
        'Features': names, 'Abstract features': abstract, 'Concrete features': concrete, 'Leaf features': leaf,
        'Compound features': compound,
        'Concrete compound features': [n for n in concrete if n in compound],
        'Concrete leaf features': [n for n in concrete if n in leaf],
        'Abstract compound features': [n for n in abstract if n in compound],
        'Abstract leaf features': [n for n in abstract if n in leaf],
        'Root feature': root,
        'Top features': [k[0] for (_a, _b, ks) in model[0][1] for k in ks],
        'Solitary features': [n for n in names if n != root and own_rel[n][2] == 1],
        'Grouped features': [n for n in names if n != root and own_rel[n][2] > 1],
        'Mandatory features': [n for n in names if n != root and sem.kind(*own_rel[n]) == 'mandatory'],
        'Optional features': [n for n in names if n != root and sem.kind(*own_rel[n]) == 'optional'],
        'Feature groups': groups,
        'Alternative groups': [f[0] for f in feats if 'alternative' in kinds(f)],
        'Or groups': [f[0] for f in feats if 'or' in kinds(f)],
        'Mutex groups': [f[0] for f in feats if 'mutex' in kinds(f)],
        'Cardinality groups': [f[0] for f in feats if 'cardinality' in kinds(f)],
        'Simple constraints': [n for n, k in ctc_kinds if k['requires'] or k['excludes']],
        'Requires constraints': [n for n, k in ctc_kinds if k['requires']],
        'Excludes constraints': [n for n, k in ctc_kinds if k['excludes']],
        'Complex constraints': [n for n, k in ctc_kinds if k['logical'] and not (k['requires'] or k['excludes'])],
        'Cross-tree constraints': [n for n, _k in ctc_kinds],
        'Features in constraints': sorted(in_ctcs),
    }
    scalars = {
        'Tree relationships#size': len(rels),
        'Min children per feature': min([nchildren[n] for n in compound]) if compound else None,
        'Max children per feature': max(nchildren.values()),
        'Avg children per feature': sum(nchildren.values()) / len(names),
        'Depth of tree': max(leaf_depths), 'Max depth of tree': max(leaf_depths),
        'Mean depth of tree': statistics.mean(leaf_depths), 'Median depth of tree': statistics.median(leaf_depths),
        'Min constraints per feature': min(per_feature), 'Max constraints per feature': max(per_feature),
        'Avg constraints per feature': statistics.mean(per_feature),
    }
    logical = [n for n, k in ctc_kinds if k['logical']]
    return exp, scalars, logical


def _close(a, b, tol=0.005):
    return isinstance(a, (int, float)) and not isinstance(a, bool) and abs(a - b) <= tol + 1e-9


def check_report(res, model, fm, out, expected_names):
    if not isinstance(res, list) or not all(isinstance(r, dict) for r in res):
        out.append(Fail('report-shape', type(res).__name__))
        return
    got_names = [r.get('name') for r in res]
    known = set(METRICS.values())
    unknown_extra = [n for n in got_names if n not in known]
    core_names = [n for n in got_names if n in known]
    if sorted(core_names) != sorted(expected_names) or len(set(unknown_extra)) != len(unknown_extra):
        dup = sorted(set(n for n in got_names if got_names.count(n) > 1))
        out.append(Fail('metric-names', {'duplicated': dup[:5], 'missing': sorted(set(expected_names) - set(got_names))[:5],
                                         'unexpected': sorted(set(got_names) - set(expected_names))[:5],
                                         'count': len(got_names)}))
        return
    rec = {r['name']: r for r in res}
    exp, scalars, logical = expected(model)
    _CTC_TEXT.clear()
    if fm is not None:
        for c in fm.get_constraints():
            _CTC_TEXT[str(c)] = c.name
    for name, r in rec.items():
        val, size, ratio = r.get('result'), r.get('size'), r.get('ratio')
        if isinstance(val, list) and size is not None and size != len(val):
            out.append(Fail('size!=len:' + name, {'size': size, 'len': len(val)}))
        if name in RATIO_OF and (RATIO_OF[name][0] in rec or RATIO_OF[name][0] == 'Features'):
            refname, prec = RATIO_OF[name]
            if refname in rec:
                den = rec[refname].get('size')
            else:
                den = len(sh.names(model))
            if ratio is None or isinstance(ratio, bool) or not isinstance(ratio, (int, float)):
                out.append(Fail('ratio-missing:' + name, repr(ratio)))
            elif not (0 <= ratio <= 1):
                out.append(Fail('ratio-out-of-range:' + name, ratio))
            elif den and size is not None and abs(ratio - size / den) > 0.5 * 10 ** (-prec) + 1e-9:
                out.append(Fail('ratio!=size/ref:' + name, {'ratio': ratio, 'size': size, 'ref': refname, 'ref_size': den}))
            elif not den and ratio != 0:
                out.append(Fail('ratio-of-empty-ref:' + name, ratio))
    # definitions
    for name, want in exp.items():
        if name not in rec:
            continue
        val = rec[name].get('result')
        if name == 'Root feature':
            if val != want or rec[name].get('size') != 1:
                out.append(Fail('definition:' + name, {'got': val, 'want': want}))
            continue
        if not isinstance(val, list):
            out.append(Fail('definition:' + name, {'got': repr(val)[:80]}))
            continue
        got = [_ctc_name(v) for v in val] if 'onstraints' in name and name != 'Features in constraints' else list(val)
        if sorted(map(str, got)) != sorted(map(str, want)):
            out.append(Fail('definition:' + name, {'got': got[:8], 'want': want[:8]}))
    if 'Tree relationships' in rec and rec['Tree relationships'].get('size') != scalars['Tree relationships#size']:
        out.append(Fail('definition:Tree relationships', rec['Tree relationships'].get('size')))
    for name, want in scalars.items():
        if name.endswith('#size') or name not in rec:
            continue
        val = rec[name].get('result')
        if want is None:
            if isinstance(val, bool) or not isinstance(val, (int, float)):
                out.append(Fail('definition:' + name, {'got': repr(val), 'want': 'a number'}))
        elif not _close(val, want):
            out.append(Fail('definition:' + name, {'got': val, 'want': want}))
    # identities that involve the shadow's logical constraints
    if 'Simple constraints' in rec and 'Complex constraints' in rec:
        both = [_ctc_name(v) for v in rec['Simple constraints']['result']] + \
               [_ctc_name(v) for v in rec['Complex constraints']['result']]
        if sorted(both) != sorted(logical):
            out.append(Fail('identity:simple+complex=logical', {'got': sorted(both), 'want': sorted(logical)}))
    for sub, sup in (('Pseudo-complex constraints', 'Complex constraints'), ('Strict-complex constraints', 'Complex constraints'),
                     ('Mandatory features', 'Solitary features'), ('Optional features', 'Solitary features')):
        if sub in rec and sup in rec and isinstance(rec[sub]['result'], list) and isinstance(rec[sup]['result'], list):
            if not set(rec[sub]['result']) <= set(rec[sup]['result']):
                out.append(Fail('identity:%s-inside-%s' % (sub, sup), sorted(set(rec[sub]['result']) - set(rec[sup]['result']))[:5]))
    for a, b, whole in (('Abstract features', 'Concrete features', sh.names(model)),
                        ('Leaf features', 'Compound features', sh.names(model)),
                        ('Solitary features', 'Grouped features', sh.names(model)[1:])):
        if a in rec and b in rec and isinstance(rec[a]['result'], list) and isinstance(rec[b]['result'], list):
            if sorted(rec[a]['result'] + rec[b]['result']) != sorted(whole):
                out.append(Fail('identity:%s+%s' % (a, b), None))
    if 'Requires constraints' in rec and 'Excludes constraints' in rec and 'Simple constraints' in rec:
        if sorted(rec['Requires constraints']['result'] + rec['Excludes constraints']['result']) != sorted(rec['Simple constraints']['result']):
            out.append(Fail('identity:requires+excludes=simple', None))
    if 'Pseudo-complex constraints' in rec and 'Strict-complex constraints' in rec and 'Complex constraints' in rec:
        ps, st = rec['Pseudo-complex constraints']['result'], rec['Strict-complex constraints']['result']
        if set(ps) & set(st):
            out.append(Fail('identity:pseudo-and-strict-overlap', None))
    # duplicates of stand-alone operations
    if fm is not None:
        try:
            if 'Branching factor' in rec and rec['Branching factor']['result'] != FMAverageBranchingFactor().execute(fm).get_result():
                out.append(Fail('operation:Branching factor', rec['Branching factor']['result']))
            if 'Leaf features' in rec and sorted(rec['Leaf features']['result']) != sorted(f.name for f in FMLeafFeatures().execute(fm).get_result()):
                out.append(Fail('operation:Leaf features', None))
            for dn in ('Depth of tree', 'Max depth of tree'):
                if dn in rec and rec[dn]['result'] != FMMaxDepthTree().execute(fm).get_result():
                    out.append(Fail('operation:' + dn, rec[dn]['result']))
            engine.tick(3)
        except Exception as exc:  # noqa: BLE001
            out.append(Fail('operation-raises:%s' % type(exc).__name__, str(exc)[:200]))


def _plain(res):
    """Report as comparable plain data."""
    return [(r.get('name'), repr(r.get('result')), r.get('size'), r.get('ratio')) for r in res]


def check(case):
    kind = case[0]
    out = []
    if kind in ('M', 'MR'):
        model = case[1]
        fm, fails = cm.built(model)
        if fails:
            return fails
        try:
            res = FMMetrics().execute(fm).get_result()
            engine.tick()
        except Exception as exc:  # noqa: BLE001
            return [Fail('raises:%s' % type(exc).__name__, str(exc)[:200])]
        check_report(res, model, fm, out, list(METRICS.values()))
        return out
    if kind == 'MF':
        model, flt = case[1], list(case[2])
        fm, fails = cm.built(model)
        if fails:
            return fails
        try:
            full = FMMetrics().execute(fm).get_result()
            op = FMMetrics()
            op.only_these_metrics(flt)
            res = op.execute(fm).get_result()
            engine.tick(2)
        except Exception as exc:  # noqa: BLE001
            return [Fail('filter-raises:%s' % type(exc).__name__, str(exc)[:200])]
        want_names = [METRICS[n] for n in flt if n in METRICS]
        got_names = [r.get('name') for r in res]
        if sorted(got_names) != sorted(want_names):
            out.append(Fail('filter-names', {'got': got_names[:6], 'want': want_names[:6]}))
            return out
        fullrec = {r['name']: r for r in full}
        for r in res:
            fr = fullrec.get(r['name'])
            if fr is None or _plain([r]) != _plain([fr]):
                out.append(Fail('filter-changes-metric', r['name']))
        check_report(res, model, fm, out, want_names)
        return out
    if kind == 'MB':
        from . import families
        model = families.big_build(case[1])
        fm, fails = cm.built(model)
        if fails:
            return fails
        try:
            res = FMMetrics().execute(fm).get_result()
            engine.tick()
        except Exception as exc:  # noqa: BLE001
            return [Fail('raises:%s' % type(exc).__name__, str(exc)[:200])]
        check_report(res, model, fm, out, list(METRICS.values()))
        return out
    if kind == 'ME':
        from .c03 import inplace_edits
        model = case[1]
        for (what, edit, em) in inplace_edits(model):
            fm, fails = cm.built(model)
            if fails:
                return fails
            op = FMMetrics()
            try:
                op.execute(fm)
                cm.checked_edit(fm, edit, model, em, what)
                res = op.execute(fm).get_result()
                engine.tick(2)
            except Exception as exc:  # noqa: BLE001
                return [Fail('after-inplace-edit:raises:%s' % type(exc).__name__, {'edit': what, 'msg': str(exc)[:200]})]
            sub = []
            check_report(res, em, fm, sub, list(METRICS.values()))
            for f in sub:
                f.clause = 'after-inplace-edit:' + f.clause
                f.detail = {'edit': what, 'info': f.detail}
            if sub:
                return sub
        return []
    if kind == 'MH':
        op = FMMetrics()
        kept = []
        for i, model in enumerate(case[1]):
            fm, fails = cm.built(model)
            if fails:
                return fails
            try:
                fresh = _plain(FMMetrics().execute(fm).get_result())
                raw = op.execute(fm).get_result()
                got = _plain(raw)
                kept.append((i, raw, got, model, fm))
                engine.tick(2)
            except Exception as exc:  # noqa: BLE001
                return [Fail('history-raises:%s' % type(exc).__name__, str(exc)[:200])]
            if got != fresh:
                out.append(Fail('history-result-differs-from-fresh', {'step': i, 'len_got': len(got), 'len_fresh': len(fresh)}))
                break
            # the reports handed out so far still describe their own models
            for (j, raw_j, plain_j, model_j, fm_j) in kept:
                if _plain(raw_j) != plain_j:
                    out.append(Fail('earlier-report-changed-by-later-execution', {'report of step': j, 'after step': i,
                                                                                  'len_was': len(plain_j), 'len_now': len(raw_j)}))
                    return out
        if not out and kept:
            # the caller empties the last report: the next reports (same object, fresh object) are complete
            j, raw_j, plain_j, model_j, fm_j = kept[-1]
            for rec in list(raw_j):
                if isinstance(rec, dict) and isinstance(rec.get('result'), list):
                    rec['result'].clear()
            raw_j.clear()
            for who, obj in (('same-object', op), ('fresh-object', FMMetrics())):
                try:
                    res = obj.execute(fm_j).get_result()
                except Exception as exc:  # noqa: BLE001
                    return [Fail('history-raises:%s' % type(exc).__name__, str(exc)[:200])]
                sub = []
                check_report(res, model_j, fm_j, sub, list(METRICS.values()))
                for f in sub:
                    f.clause = 'after-the-caller-emptied-a-report:%s:%s' % (who, f.clause)
                if sub:
                    return sub
        return out
    raise ValueError(kind)


def outcome(case):
    return case[0]
