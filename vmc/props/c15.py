"""C15 - atomic sets partition the features into always-co-selected groups."""
from __future__ import annotations

from flamapy.metamodels.fm_metamodel.operations import FMAtomicSets

from .. import engine, sem
from .. import shadow as sh
from ..engine import Fail
from . import common as cm
from . import opscfg

ID = 'C15'
describe_base, reduce, nontrivial = opscfg.describe, opscfg.reduce, opscfg.nontrivial


def cases(tier, seed):
    yield from opscfg.cases(tier, seed)
    # chains around and beyond the interpreter's recursion limit with an optional leaf every 100 levels:
    # running out of stack is a resource failure outside the reference model; sets that are returned
    # have to be the partition
    for n in (300, 900, 1500, 2500):
        for link in ((1, 1), (0, 1)):
            yield ('DC', n, link)


def describe(case):
    if case[0] == 'DC':
        return 'DC:chain of %d levels linked by %s with an optional leaf every 100 levels' % (case[1], list(case[2]))
    return describe_base(case)


def _deep_chain(case):
    from flamapy.metamodels.fm_metamodel.models import Feature, FeatureModel, Relation
    _k, n, link = case
    feats = [Feature('N%d' % i, []) for i in range(n)]
    extra = []
    for i in range(n - 1):
        if i % 100 == 50:
            leaf = Feature('L%d' % i, [])
            extra.append(leaf.name)
            feats[i].add_relation(Relation(feats[i], [leaf], 0, 1))
        feats[i].add_relation(Relation(feats[i], [feats[i + 1]], link[0], link[1]))
    fm = FeatureModel(feats[0], [])
    engine.tick(n)
    try:
        res = FMAtomicSets().execute(fm).get_result()
        sets = sorted(sorted(f.name for f in s) for s in res)
    except RecursionError:
        return []
    except Exception as exc:  # noqa: BLE001
        return [Fail('raises:%s' % type(exc).__name__, 'chain of %d levels' % n)]
    chain = ['N%d' % i for i in range(n)]
    want = sorted([sorted(chain)] + [[x] for x in extra]) if link == (1, 1) else sorted([[x] for x in chain + extra])
    if sets != want:
        flat = [x for s_ in sets for x in s_]
        clause = 'not-a-partition' if sorted(flat) != sorted(chain + extra) else ('mandatory-child-split' if link == (1, 1) else 'not-co-selected')
        return [Fail(clause, {'sets returned': len(sets), 'expected': len(want), 'features': n + len(extra), 'members returned': len(flat)})]
    engine.validated()
    return []


def plan(tier):
    return opscfg.plan(tier, 'sets are non-empty, disjoint, cover the features; members co-selected in every '
                             'configuration; every (1,1) single child shares its parent\'s set')


def selftest():
    sem.selftest()


def judge(res, model):
    sets = [sorted(f.name for f in s) for s in res]
    sizes = [len(s) for s in res]
    out = []
    names = sh.names(model)
    flat = [n for s in sets for n in s]
    if any(z == 0 for z in sizes):
        out.append(Fail('empty-set', sets))
    if sorted(flat) != sorted(names):
        out.append(Fail('not-a-partition', {'sets': sets, 'features': names}))
    where = {}
    for i, s in enumerate(sets):
        for n in s:
            where.setdefault(n, i)
    cfgs = []
    if sh.size(model) <= 16:
        tcs = sem.tree_configs_cached(model)
        cfgs = [s for s in tcs if all(sem.ev(t, s) for _n, t in model[1])]
    else:
        # beyond brute force: members of one set must be linked by all-children-needed relations
        pm = sh.parent_map(model)
        need_all = set(k for (_p, a, _b, ks) in sh.relations(model) if a >= len(ks) for k in ks)
        for s in sets:
            tops = [n for n in s if not (n in need_all and pm[n] in s)]
            if len(tops) != 1:
                out.append(Fail('not-co-selected', {'set-size': len(s), 'unlinked': tops[:4]}))
                break
    for s in sets:
        for a in s[1:]:
            if any((a in c) != (s[0] in c) for c in cfgs):
                out.append(Fail('not-co-selected', {'set': s, 'pair': [s[0], a]}))
                break
    for (p, a, b, kids) in sh.relations(model):
        if (a, b) == (1, 1) and len(kids) == 1:
            if where.get(kids[0]) != where.get(p):
                out.append(Fail('mandatory-child-split', {'parent': p, 'child': kids[0], 'sets': sets}))
                break
    return out


def check(case):
    if case[0] == 'DC':
        return _deep_chain(case)
    model = opscfg.resolve(case)
    if case[0] == 'SE':
        return opscfg.edit_history(model, FMAtomicSets, judge)
    if case[0] == 'ST':
        return opscfg.overlap(case[1], case[2], FMAtomicSets, judge)
    if case[0] == 'SF':
        return opscfg.failure_history(model, FMAtomicSets, judge)
    if case[0] == 'SO':
        return opscfg.result_ownership(model, FMAtomicSets, judge)
    fm, fails = cm.built(model)
    if fails:
        return fails
    try:
        res = FMAtomicSets().execute(fm).get_result()
        engine.tick()
        [sorted(f.name for f in s) for s in res]
    except Exception as exc:  # noqa: BLE001
        return [Fail('raises:%s' % type(exc).__name__, str(exc))]
    return judge(res, model)


def outcome(case):
    if case[0] == 'DC':
        return 'deep-chain'
    if case[0] == 'B':
        return 'big'
    return 'nsets?'
