"""C15 - atomic sets partition the features into always-co-selected groups."""
from __future__ import annotations

from flamapy.metamodels.fm_metamodel.operations import FMAtomicSets

from .. import engine, sem
from .. import shadow as sh
from ..engine import Fail
from . import common as cm
from . import opscfg

ID = 'C15'
cases, describe, reduce, nontrivial = opscfg.cases, opscfg.describe, opscfg.reduce, opscfg.nontrivial


def plan(tier):
    return opscfg.plan(tier, 'sets are non-empty, disjoint, cover the features; members co-selected in every '
                             'configuration; every (1,1) single child shares its parent\'s set')


def selftest():
    sem.selftest()


def judge(res, model):
    sets = [sorted(f.name for f in s) for s in res]
    sizes = [len(s) for s in res]
    out = []
    names = sh.names(model)
    flat = [n for s in sets for n in s]
    if any(z == 0 for z in sizes):
        out.append(Fail('empty-set', sets))
    if sorted(flat) != sorted(names):
        out.append(Fail('not-a-partition', {'sets': sets, 'features': names}))
    where = {}
    for i, s in enumerate(sets):
        for n in s:
            where.setdefault(n, i)
    tcs = sem.tree_configs_cached(model)
    cfgs = [s for s in tcs if all(sem.ev(t, s) for _n, t in model[1])]
    for s in sets:
        for a in s[1:]:
            if any((a in c) != (s[0] in c) for c in cfgs):
                out.append(Fail('not-co-selected', {'set': s, 'pair': [s[0], a]}))
                break
    for (p, a, b, kids) in sh.relations(model):
        if (a, b) == (1, 1) and len(kids) == 1:
            if where.get(kids[0]) != where.get(p):
                out.append(Fail('mandatory-child-split', {'parent': p, 'child': kids[0], 'sets': sets}))
                break
    return out


def check(case):
    model = case[1]
    if case[0] == 'SE':
        return opscfg.edit_history(model, FMAtomicSets, judge)
    fm, fails = cm.built(model)
    if fails:
        return fails
    try:
        res = FMAtomicSets().execute(fm).get_result()
        engine.tick()
        [sorted(f.name for f in s) for s in res]
    except Exception as exc:  # noqa: BLE001
        return [Fail('raises:%s' % type(exc).__name__, str(exc))]
    return judge(res, model)


def outcome(case):
    return 'nsets?'
