"""C15 - atomic sets partition the features into always-co-selected groups."""
from __future__ import annotations

from flamapy.metamodels.fm_metamodel.operations import FMAtomicSets

from .. import engine, sem
from .. import shadow as sh
from ..engine import Fail
from . import common as cm
from . import opscfg

ID = 'C15'
cases, describe, reduce, nontrivial = opscfg.cases, opscfg.describe, opscfg.reduce, opscfg.nontrivial


def plan(tier):
    return opscfg.plan(tier, 'sets are non-empty, disjoint, cover the features; members co-selected in every '
                             'configuration; every (1,1) single child shares its parent\'s set')


def selftest():
    sem.selftest()


def judge(res, model):
    sets = [sorted(f.name for f in s) for s in res]
    sizes = [len(s) for s in res]
    out = []
    names = sh.names(model)
    flat = [n for s in sets for n in s]
    if any(z == 0 for z in sizes):
        out.append(Fail('empty-set', sets))
    if sorted(flat) != sorted(names):
        out.append(Fail('not-a-partition', {'sets': sets, 'features': names}))
    where = {}
    for i, s in enumerate(sets):
        for n in s:
            where.setdefault(n, i)
    cfgs = []
    if sh.size(model) <= 16:
        tcs = sem.tree_configs_cached(model)
        cfgs = [s for s in tcs if all(sem.ev(t, s) for _n, t in model[1])]
    else:
        # beyond brute force: members of one set must be linked by all-children-needed relations
        pm = sh.parent_map(model)
        need_all = set(k for (_p, a, _b, ks) in sh.relations(model) if a >= len(ks) for k in ks)
        for s in sets:
            tops = [n for n in s if not (n in need_all and pm[n] in s)]
            if len(tops) != 1:
                out.append(Fail('not-co-selected', {'set-size': len(s), 'unlinked': tops[:4]}))
                break
    for s in sets:
        for a in s[1:]:
            if any((a in c) != (s[0] in c) for c in cfgs):
                out.append(Fail('not-co-selected', {'set': s, 'pair': [s[0], a]}))
                break
    for (p, a, b, kids) in sh.relations(model):
        if (a, b) == (1, 1) and len(kids) == 1:
            if where.get(kids[0]) != where.get(p):
                out.append(Fail('mandatory-child-split', {'parent': p, 'child': kids[0], 'sets': sets}))
                break
    return out


def check(case):
    model = opscfg.resolve(case)
    if case[0] == 'SE':
        return opscfg.edit_history(model, FMAtomicSets, judge)
    fm, fails = cm.built(model)
    if fails:
        return fails
    try:
        res = FMAtomicSets().execute(fm).get_result()
        engine.tick()
        [sorted(f.name for f in s) for s in res]
    except Exception as exc:  # noqa: BLE001
        return [Fail('raises:%s' % type(exc).__name__, str(exc))]
    return judge(res, model)


def outcome(case):
    if case[0] == 'B':
        return 'big'
    return 'nsets?'
