"""C09 - third-party documents are read as their format defines."""
from __future__ import annotations

import os
import re

from flamapy.metamodels.fm_metamodel.transformations import AFMReader, FeatureIDEReader, GlencoeReader, XMLReader

from .. import build as bd
from .. import engine, sem
from .. import shadow as sh
from .. import space as sp
from ..engine import Fail
from ..lang import afm, fama, fide, glencoe
from . import common as cm
from . import rt
from .c07 import in_fragment as fide_fragment
from .c06 import in_fragment as afm_fragment, afm_attr_alphabet
from .c16 import CORPUS, corpus_files

ID = 'C09'
F, R, M = sh.F, sh.R, sh.M


class _Fmt(rt.Format):
    def __init__(self, fields):
        self.fields = fields


# fields a format has no notation for must come back with their defaults (Boolean, [1..1], concrete, no attributes)
FIDE_FMT = _Fmt(('abstract', 'ftype', 'fcard', 'attrs'))
FAMA_FMT = _Fmt(('ctc-names', 'abstract', 'ftype', 'fcard', 'attrs'))
AFM_FMT = _Fmt(('attrs', 'abstract', 'ftype', 'fcard'))
GLEN_FMT = _Fmt(('ctc-names', 'ctc-by-name', 'abstract', 'ftype', 'fcard', 'attrs'))
READERS = {'FIDE': FeatureIDEReader, 'FAMA': XMLReader, 'AFM': AFMReader, 'GLEN': GlencoeReader}
EMIT = {'FIDE': fide, 'AFM': afm, 'GLEN': glencoe}
FMT = {'FIDE': FIDE_FMT, 'FAMA': FAMA_FMT, 'AFM': AFM_FMT, 'GLEN': GLEN_FMT}
EXT = {'FIDE': 'xml', 'FAMA': 'xml', 'AFM': 'afm', 'GLEN': 'gfm.json'}
FAMA_CHOICES = [dict(card_first=c, attr_order=a, upper_tags=u, indent=i, rel_names=r)
                for c in (True, False) for a in (0, 1) for u in (False, True) for i in (True, False) for r in (True, False)]


def _chain(op, names):
    t = names[0]
    for n in names[1:]:
        t = (op, t, n)
    return t


def _ctc_lists(names, xor=False, reqs=False):
    a, b, c, d = names
    out = [[], [('AND', a, b)], [_chain('AND', [a, b, c])], [_chain('OR', [a, b, c, d])],
           [('IMPLIES', a, ('NOT', b, None)), ('EQUIVALENCE', c, ('OR', a, d))],
           [('NOT', _chain('AND', [a, b, c, d]), None)], [('OR', _chain('AND', [a, b, c]), _chain('OR', [b, c, d]))],
           [a], [('NOT', a, None)], [('IMPLIES', ('IMPLIES', a, b), c)], [('AND', a, b), ('AND', a, b)],
           [('IMPLIES', a, b), ('IMPLIES', c, d), ('IMPLIES', a, b)]]
    if xor:
        out += [[('XOR', a, b)], [('EXCLUDES', a, ('AND', b, c))]]
    if reqs:
        out += [[('REQUIRES', a, b), ('EXCLUDES', c, d)], [('REQUIRES', ('AND', a, b), ('OR', c, d))]]
    return out


CAR5 = M(F('Fa', [R(1, 1, [F('Bb')]), R(0, 1, [F('Dc')]), R(0, 1, [F('Ad', [R(1, 1, [F('Ee')])])])]))
DEEP1 = M(F('Fa', [R(1, 1, [F('Bb', [R(1, 1, [F('Ee')]), R(0, 1, [F('Gg')])]), F('Dc')])]))
DEEP2 = M(F('Fa', [R(1, 2, [F('Bb', [R(1, 1, [F('Ee', [R(0, 1, [F('Hh')])])])]), F('Dc', [R(1, 1, [F('Gg'), F('Ii')])])])]))
N7 = ('P1', 'P2', 'P3', 'P4', 'P5', 'P6', 'P7')
CAR8 = M(F('Fa', [R(0, 1, [F(n)]) for n in N7]))
CAR8G = M(F('Fa', [R(1, 7, [F(n) for n in N7])]))
CAR5G = M(F('Fa', [R(1, 1, [F('Bb')]), R(1, 1, [F('Gp', [R(1, 3, [F('Dc'), F('Ad'), F('Ee')])])])]))


def _with(model, trees):
    return (model[0], tuple(('c%d' % (i + 1), t) for i, t in enumerate(trees)))


def _key(mod, ch):
    return tuple(ch[k] for k in mod.CHOICES)


def _unkey(mod, k):
    return dict(zip(mod.CHOICES, k))


def cases(tier, seed):
    n = 3 if tier == 'quick' else 4
    structs = list(sp.structures_upto(n))
    # ---- FeatureIDE
    fide_models = [m for m in structs if fide_fragment(m)] + [DEEP1, DEEP2]
    fide_models += [rt.deviation(rt.deviation(CAR5, 2, ('abstract', None)), 0, ('abstract', None)), rt.deviation(CAR5, 1, ('name', 'a <b> & "c"'))]
    for nm in ('Cafe\u0301', '2k\u2126', ' lead', 'x\u2028y', 'Sensor\u0663'):
        mm = rt.deviation(CAR5, 1, ('name', nm))
        fide_models.append((mm[0], (('c1', ('IMPLIES', nm, 'Dc')),)))
    from . import families
    fide_models += [m for m in families.models() if fide_fragment(m)]
    fide_models += [_with(CAR5, ts) for ts in _ctc_lists(('Bb', 'Dc', 'Ad', 'Ee'))]
    fide_models += [_with(CAR8, [_chain('AND', N7)]), _with(CAR8, [_chain('OR', N7), ('NOT', _chain('AND', N7[:6]), None)]),
                    _with(CAR8, [('IMPLIES', _chain('OR', N7[:5]), _chain('AND', N7[1:]))])]
    cover = [_key(fide, c) for c in fide.covering_choices()]
    full = [_key(fide, c) for c in fide.all_choices()]
    for i, m in enumerate(fide_models):
        rich = bool(m[1]) or i >= len(fide_models) - 12
        for k in (full if (rich and tier == 'thorough') or (rich and i % 4 == 0) else cover):
            yield ('FIDE', m, k)
    for m in rt.align_models(tier):
        yield ('FIDE', m, _key(fide, fide.DEFAULT))
        yield ('GLEN', m, _key(glencoe, glencoe.DEFAULT))
        yield ('FAMA', m, (0,))
    # ---- FaMa XML
    fama_models = structs + [DEEP1, DEEP2] + list(families.models()) + [_with(CAR5, ts) for ts in _ctc_lists(('Bb', 'Dc', 'Ad', 'Ee'), reqs=True)[-2:-1]]
    fama_models.append(_with(CAR5G, [('REQUIRES', 'Bb', 'Dc'), ('EXCLUDES', 'Ad', 'Ee'), ('REQUIRES', 'Ee', 'Bb')]))
    fama_models.append(_with(CAR5G, [('REQUIRES', 'Bb', 'Dc'), ('EXCLUDES', 'Ad', 'Ee'), ('REQUIRES', 'Bb', 'Dc')]))
    fama_models.append(_with(CAR5G, [('EXCLUDES', 'Bb', 'Bb')]))
    fama_models.append(_with(CAR5G, [('REQUIRES', 'Dc', 'Dc'), ('EXCLUDES', 'Ad', 'Ad'), ('REQUIRES', 'Bb', 'Dc')]))
    casey = M(F('Fa', [R(0, 1, [F('Cache')]), R(0, 1, [F('cache')]), R(0, 1, [F('Disk')]), R(0, 1, [F('disk')])]))
    fama_models.append(_with(casey, [('REQUIRES', 'Cache', 'Disk'), ('REQUIRES', 'cache', 'disk'), ('EXCLUDES', 'Cache', 'disk')]))
    for first, second in (('Wifi', 'WIFI'), ('WIFI', 'Wifi'), ('Stra\u00dfe', 'STRASSE')):
        two = M(F('Fa', [R(0, 1, [F(first)]), R(0, 1, [F('Bb')]), R(0, 1, [F(second, [R(1, 1, [F('Ee')])])])]))
        fama_models.append(_with(two, [('REQUIRES', first, 'Bb')]))
        fama_models.append(_with(two, [('EXCLUDES', 'Bb', second), ('REQUIRES', 'Ee', first)]))
    # binary relations whose cardinality is not one of [0..1] / [1..1] ("read as written")
    for (a, b) in ((1, 2), (0, 3), (2, 2), (0, 0), (1, -1)):
        fama_models.append(M(F('Fa', [R(a, b, [F('Bb', [R(0, 1, [F('Ee')])])]), R(0, 1, [F('Dc')])])))
    for m in fama_models:
        for ci in range(len(FAMA_CHOICES)):
            yield ('FAMA', m, (ci,))
    # ---- AFM
    afm_models = [m for m in structs if afm_fragment(m) and sh.size(m) > 1] + [DEEP1, DEEP2] + [m for m in families.models() if afm_fragment(m)]
    afm_models += [_with(CAR5, ts) for ts in _ctc_lists(('Bb', 'Dc', 'Ad', 'Ee'), reqs=True)]
    for av in afm_attr_alphabet():
        afm_models.append(rt.deviation(CAR5, 1, ('attr', av)))
    afm_models.append(rt.deviation(rt.deviation(CAR5G, 3, ('attr', afm_attr_alphabet()[0])), 1, ('attr', afm_attr_alphabet()[3])))
    two = rt.deviation(rt.deviation(CAR5, 1, ('attr', afm_attr_alphabet()[0])), 1, ('attr', afm_attr_alphabet()[2]))
    afm_models.append(two)
    afm_models.append(_with(two, [('REQUIRES', 'Dc', 'Ad'), ('NOT', ('AND', 'Bb', 'Ee'), None)]))
    cover = [_key(afm, c) for c in afm.covering_choices()]
    full = [_key(afm, c) for c in afm.all_choices()]
    for i, m in enumerate(afm_models):
        rich = bool(m[1]) or i >= len(afm_models) - 10
        for k in (full if rich and (tier == 'thorough' or i % 3 == 0) else cover):
            yield ('AFM', m, k)
    for i in range(len(AFM_MUST_RAISE)):
        yield ('AFMX', i)
    for i in range(len(FIDE_MUST_RAISE)):
        yield ('FIDEX', i)
    # XML documents stored in the encoding their declaration names
    for kind in ('FIDE', 'FAMA'):
        for enc in ('ISO-8859-1', 'windows-1252', 'UTF-16', 'utf-8-sig', 'US-ASCII'):
            yield ('ENC', kind, enc)
    # ---- Glencoe
    glen_models = [m for m in structs if glencoe.in_fragment(m)] + [DEEP1, DEEP2] + [m for m in families.models() if glencoe.in_fragment(m)]
    for nm in ('Cafe\u0301', '\u212b', 'a\ufeffb'):
        mm = rt.deviation(CAR5G, 1, ('name', nm))
        glen_models.append((mm[0], (('c1', ('IMPLIES', nm, 'Dc')),)))
    glen_models += [_with(CAR5G, ts) for ts in _ctc_lists(('Bb', 'Dc', 'Ad', 'Ee'), xor=True)]
    # [a..b] groups whose upper bound exceeds the number of members, next to a mandatory sibling ("read as written")
    for (a, b) in ((2, 3), (1, 5), (0, 4), (2, 2)):
        glen_models.append(M(F('Fa', [R(1, 1, [F('Cam')]), R(a, b, [F('Mp'), F('Ra')])])))
        glen_models.append(M(F('Fa', [R(1, 1, [F('Cam', [R(a, b, [F('Mp'), F('Ra')]), R(1, 1, [F('Zo')])])])])))
    glen_models += [_with(CAR8G, [_chain('AND', N7)]), _with(CAR8G, [_chain('OR', N7), ('NOT', _chain('AND', N7[:6]), None)]),
                    _with(CAR8G, [('IMPLIES', _chain('OR', N7[:5]), _chain('AND', N7[1:]))])]
    cover = [_key(glencoe, c) for c in glencoe.covering_choices()]
    full = [_key(glencoe, c) for c in glencoe.all_choices()]
    for i, m in enumerate(glen_models):
        rich = bool(m[1])
        for k in (full if rich and (tier == 'thorough' or i % 3 == 0) else cover):
            yield ('GLEN', m, k)
    yield ('GLENX', CAR5G, _key(glencoe, glencoe.DEFAULT))
    # ---- corpus
    for rel in corpus_files(1000 if tier == 'quick' else None):
        yield ('CORPUS', rel)


# FeatureIDE rule elements the library has no counterpart for (atmost1, ...), at the top of a rule and
# nested in every supported connective: the document must be refused, not read as something else
_UNK = '<atmost1><var>Bb</var><var>Dc</var></atmost1>'
FIDE_MUST_RAISE = [
    _UNK,
    '<imp><var>Bb</var>%s</imp>' % _UNK,
    '<imp>%s<var>Bb</var></imp>' % _UNK,
    '<eq><var>Bb</var>%s</eq>' % _UNK,
    '<not>%s</not>' % _UNK,
    '<conj><var>Bb</var>%s</conj>' % _UNK,
    '<disj>%s<var>Dc</var></disj>' % _UNK,
    '<imp><var>Bb</var><not>%s</not></imp>' % _UNK,
    '<imp><var>Bb</var><unknownop><var>Dc</var></unknownop></imp>',
]
AFM_MUST_RAISE = [
    "Bb.att > 3;", "Bb.att == 3 AND Dc;", "Bb.att + Dc.att >= 3;", "NOT (Bb.att < 2);", "Bb IMPLIES (Dc.att != 1);",
]


def plan(tier):
    return {
        'chunk': 80,
        'bounds': 'reference models S<=%d per format fragment plus rich models (abstract flags, XML-significant names, n-ary '
                  'and/or chains of 3 and 4, attributes, requires/excludes, xor) emitted by independent emitters under the '
                  'covering set of each format\'s freedoms (all combinations on the rich models%s); must-raise documents; '
                  'complete sweep of the shipped FaMa corpus (%s) against an independent XML walker and the Betty .statistics'
                  % (3 if tier == 'quick' else 4, '' if tier == 'thorough' else ', every 3rd/4th', 'files <=1000 features' if tier == 'quick' else 'all 1299 files'),
        'rule': 'the reader result must equal the reference model under the format\'s definition (order-insensitive tree, '
                'abstract flags, attributes, constraints by truth table, names where the format has them); constructs the '
                'library cannot represent must raise; corpus counts must equal the Betty ground truth; non-trivial = all',
        'assumptions': ['emitters follow the format definitions as read by the author; where a format is silent both readings '
                        'are accepted', 'AFM token-level freedoms were checked against the generated parser'],
    }


def describe(case):
    if case[0] == 'CORPUS':
        return 'CORPUS:' + case[1]
    if case[0] == 'AFMX':
        return 'AFMX:' + AFM_MUST_RAISE[case[1]]
    if case[0] == 'FIDEX':
        return 'FIDEX:' + FIDE_MUST_RAISE[case[1]]
    if case[0] == 'ENC':
        return 'ENC:%s document stored as %s' % (case[1], case[2])
    return '%s:%s | choices=%s' % (case[0], sh.model_str(case[1]), ','.join(str(x) for x in case[2]))


def reduce(case):
    if case[0] in ('CORPUS', 'AFMX', 'GLENX', 'FIDEX', 'ENC'):
        return
    kind, model, k = case
    if kind == 'FAMA':
        if k[0]:
            yield (kind, model, (0,))
    else:
        mod = EMIT[kind]
        keys = list(mod.CHOICES)
        for i, key in enumerate(keys):
            if k[i] != mod.CHOICES[key][0]:
                yield (kind, model, k[:i] + (mod.CHOICES[key][0],) + k[i + 1:])
    frag = {'FIDE': fide_fragment, 'AFM': lambda m: afm_fragment(m) and sh.size(m) > 1, 'GLEN': glencoe.in_fragment,
            'FAMA': lambda m: all(t[0] in ('REQUIRES', 'EXCLUDES') and not isinstance(t[1], tuple) and not isinstance(t[2], tuple)
                                  for _n, t in m[1])}[kind]
    for m in sh.reductions(model, sp.NAME_POOL):
        if frag(m) and not (kind != 'GLEN' and any('XOR' in sh.tree_ops(t) for _n, t in m[1])):
            if kind in ('FIDE', 'AFM') and any(o in ('REQUIRES', 'EXCLUDES') for _n, t in m[1] for o in sh.tree_ops(t)) and kind == 'FIDE':
                continue
            yield (kind, m, k)


def nontrivial(case):
    return True


def selftest():
    sem.selftest()
    fama.selftest()
    fide.selftest()
    afm.selftest()
    glencoe.selftest()


def _document(kind, model, k):
    if kind == 'FAMA':
        return fama.emit(model, **FAMA_CHOICES[k[0]])
    mod = EMIT[kind]
    return mod.emit(model, _unkey(mod, k))


STAT_KEYS = {
    'Number of features': 'features', 'Mandatory features': 'mandatory', 'Optinal features': 'optional',
    'Or-relationships': 'or', 'Alternative relationships': 'alternative', 'Subfeatures in or-relationships': 'or_children',
    'Subfeatures in alternative relationships': 'alt_children', 'Maximum branching factor': 'max_branching',
    'Maximum number of children in a set relationship': 'max_set', 'Cross-tree constraints': 'ctcs',
    'Requires constraints': 'requires', 'Excludes constraints': 'excludes',
}


def read_statistics(path):
    out = {}
    for line in open(path, encoding='utf8', errors='replace'):
        m = re.match(r'^([^:=]+):\s*([0-9]+)', line)
        if m and m.group(1).strip() in STAT_KEYS:
            out[STAT_KEYS[m.group(1).strip()]] = int(m.group(2))
    return out


def stats_of(ob):
    rels = sh.relations(ob)
    kinds = [(sem.kind(a, b, len(k)), len(k)) for (_p, a, b, k) in rels]
    feats = sh.features(ob)
    sets = [n for (k, n) in kinds if n > 1]
    return {
        'features': len(feats),
        'mandatory': sum(1 for k, _n in kinds if k == 'mandatory'),
        'optional': sum(1 for k, _n in kinds if k == 'optional'),
        'or': sum(1 for k, _n in kinds if k == 'or'),
        'alternative': sum(1 for k, _n in kinds if k == 'alternative'),
        'or_children': sum(n for k, n in kinds if k == 'or'),
        'alt_children': sum(n for k, n in kinds if k == 'alternative'),
        'max_branching': max([sum(len(ks) for (_a, _b, ks) in f[1]) for f in feats]),
        'max_set': max(sets) if sets else 1,
        'ctcs': len(ob[1]),
        'requires': sum(1 for _n, t in ob[1] if isinstance(t, tuple) and t[0] == 'REQUIRES'),
        'excludes': sum(1 for _n, t in ob[1] if isinstance(t, tuple) and t[0] == 'EXCLUDES'),
    }


def check(case):
    kind = case[0]
    out = []
    if kind == 'CORPUS':
        path = os.path.join(CORPUS, case[1])
        ref = fama.read(path)
        try:
            ob = bd.observe(XMLReader(path).transform())
            engine.tick()
        except Exception as exc:  # noqa: BLE001
            return [Fail('corpus-read-raises:%s' % type(exc).__name__, str(exc)[:200])]
        rt.compare(FAMA_FMT, ref, ob, out)
        if rt.canon_order(ref) != rt.canon_order(ob) and not out:
            out.append(Fail('corpus-order', None))
        st = path[:-4] + '.statistics'
        if os.path.exists(st):
            want = read_statistics(st)
            got = stats_of(ob)
            diff = {k: (got[k], v) for k, v in want.items() if got[k] != v}
            if diff:
                out.append(Fail('corpus-statistics', {'got_vs_betty': diff}))
            elif len(want) < 10:
                out.append(Fail('statistics-file-unreadable', sorted(want)))
        if not out:
            engine.validated()
        return out
    if kind == 'AFMX':
        doc = "%Relationships\nFa : [Bb] [Dc];\n%Attributes\nBb.att: Integer[0 to 5],3,0;\nDc.att: Integer[0 to 5],3,0;\n%Constraints\n" + AFM_MUST_RAISE[case[1]] + "\n"
        path = engine.tmppath('c09x.afm')
        open(path, 'w', encoding='utf8').write(doc)
        try:
            fm = AFMReader(path).transform()
            engine.tick()
        except Exception:  # noqa: BLE001
            engine.validated()
            return []
        return [Fail('unrepresentable-construct-accepted', {'doc': doc, 'model': cm._safe_str(bd.observe(fm))})]
    if kind == 'ENC':
        fmtkind, enc = case[1], case[2]
        name = 'Cafe' if enc == 'US-ASCII' else 'Caf\u00e9 \u00fc'
        model = _with(rt.deviation(CAR5, 1, ('name', name)), [('REQUIRES', name, 'Dc')] if fmtkind == 'FAMA' else [('IMPLIES', name, 'Dc')])
        doc = _document(fmtkind, model, (0,) if fmtkind == 'FAMA' else _key(fide, fide.DEFAULT))
        declared = 'UTF-8' if enc == 'utf-8-sig' else enc
        doc = doc.replace('encoding="UTF-8"', 'encoding="%s"' % declared, 1)
        if 'encoding="%s"' % declared not in doc:
            raise AssertionError('reference document has no XML declaration to adjust')
        path = engine.tmppath('c09enc.xml')
        with open(path, 'wb') as fh:
            fh.write(doc.encode(enc))
        try:
            ob = bd.observe(READERS[fmtkind](path).transform())
            engine.tick()
        except Exception as exc:  # noqa: BLE001
            return [Fail('%s-valid-document-rejected:%s' % (fmtkind, type(exc).__name__), {'stored as': enc, 'msg': str(exc)[:150]})]
        rt.compare(FMT[fmtkind], model, ob, out)
        for f in out:
            f.clause = fmtkind + '-' + f.clause
            f.detail = {'stored as': enc, 'info': f.detail}
        if not out:
            engine.validated()
        return out
    if kind == 'FIDEX':
        doc = ('<?xml version="1.0" encoding="UTF-8" standalone="no"?>\n<featureModel>\n<struct>\n<and mandatory="true" name="Fa">\n'
               '<feature name="Bb"/>\n<feature name="Dc"/>\n</and>\n</struct>\n<constraints>\n<rule>\n%s\n</rule>\n</constraints>\n</featureModel>\n'
               % FIDE_MUST_RAISE[case[1]])
        path = engine.tmppath('c09x.xml')
        open(path, 'w', encoding='utf8').write(doc)
        try:
            fm = FeatureIDEReader(path).transform()
            engine.tick()
            shown = cm._safe_str(bd.observe(fm))
        except Exception:  # noqa: BLE001
            engine.validated()
            return []
        return [Fail('unrepresentable-construct-accepted', {'doc': doc[:400], 'model': shown})]
    if kind == 'GLENX':
        doc = glencoe.emit(case[1], _unkey(glencoe, case[2]), unknown_term=True)
        path = engine.tmppath('c09x.gfm.json')
        open(path, 'w', encoding='utf8').write(doc)
        try:
            fm = GlencoeReader(path).transform()
            engine.tick()
        except Exception:  # noqa: BLE001
            engine.validated()
            return []
        return [Fail('unrepresentable-construct-accepted', {'doc': doc[:300], 'model': cm._safe_str(bd.observe(fm))})]
    model, k = case[1], case[2]
    doc = _document(kind, model, k)
    path = engine.tmppath('c09.' + EXT[kind])
    with open(path, 'w', encoding='utf8') as fh:
        fh.write(doc)
    try:
        fm = READERS[kind](path).transform()
        engine.tick()
        ob = bd.observe(fm)
    except Exception as exc:  # noqa: BLE001
        if kind == 'FIDE' and _unkey(fide, k).get('leaf_tag', 'feature') != 'feature' and sh.size(model) > 1:
            engine.validated()      # degenerate document (childless group element): rejecting it is allowed
            return []
        return [Fail('%s-valid-document-rejected:%s' % (kind, type(exc).__name__), {'doc': doc[:500], 'msg': str(exc)[:120]})]
    expected = model
    if kind == 'AFM':
        expected = (model[0], tuple(('e%d' % i, t) for i, t in enumerate(afm.expected_constraints(model, _unkey(afm, k)))))
    rt.compare(FMT[kind], expected, ob, out)
    for f in out:
        f.clause = kind + '-' + f.clause
        f.detail = {'doc': doc[:500], 'info': f.detail}
    if not out:
        engine.validated()
    return out


def outcome(case):
    return case[0]
