"""C05 - JSON round trip returns the same model, at any number of cycles."""
from __future__ import annotations

import json

from flamapy.metamodels.fm_metamodel.transformations import JSONReader, JSONWriter

from .. import build as bd
from .. import engine, sem
from .. import shadow as sh
from .. import space as sp
from ..engine import Fail
from . import common as cm
from . import rt

ID = 'C05'
BOUNDS = {'quick': 5, 'thorough': 7}


class JSONFormat(rt.Format):
    name = 'json'
    ext = 'json'
    fields = ('abstract', 'attrs', 'ctc-names', 'ctc-exact')

    writer_cls = JSONWriter
    reader_cls = JSONReader

    def write(self, fm, path):
        return JSONWriter(path, fm).transform()

    def read(self, path):
        return JSONReader(path).transform()

    def extra_checks(self, model, fm0, text0, path, out):
        try:
            fm_file = JSONReader(path).transform()
            obj = json.loads(text0)
            fm_obj = JSONReader.parse_json(obj)
            fm_obj2 = JSONReader.parse_json(obj)
            engine.tick(3)
            if obj != json.loads(text0):
                out.append(Fail('parse_json-modifies-its-argument', None))
            if bd.observe(fm_obj2) != bd.observe(fm_obj):
                out.append(Fail('parse_json-second-call-differs', {'first': cm._safe_str(bd.observe(fm_obj)), 'second': cm._safe_str(bd.observe(fm_obj2))}))
            if bd.observe(fm_obj) != bd.observe(fm_file):
                out.append(Fail('parse_json!=file', {'obj': cm._safe_str(bd.observe(fm_obj)), 'file': cm._safe_str(bd.observe(fm_file))}))
        except Exception as exc:  # noqa: BLE001
            out.append(Fail('parse_json-raises:%s' % type(exc).__name__, str(exc)[:200]))


FMT = JSONFormat()


def in_fragment(m):
    return all(sem.kind(a, b, len(k)) is not None for (_p, a, b, k) in sh.relations(m))


def _json_values():
    out = []
    for v in rt.ATTR_VALUES:
        try:
            json.dumps(v)
            if isinstance(v, dict) and not all(isinstance(k, str) for k in v):
                continue
            out.append(v)
        except (TypeError, ValueError):
            pass
    return out


def _level1():
    devs = [('abstract', None)]
    for cls, members in rt.NAME_CLASSES.items():
        for n in members:
            devs.append(('name', n))
    for i, v in enumerate(_json_values()):
        devs.append(('attr', ('att%d' % i, v)))
    devs.append(('attr', ('a b', 1)))
    devs.append(('attr', ('ünï', 'x')))
    devs.append(('attr', ('or', True)))
    devs += [('attr', nv) for nv in rt.ATTR_NAME_DEVS]
    return devs


def _level2():
    devs = [('abstract', None)]
    for cls, members in rt.NAME_CLASSES.items():
        devs.append(('name', members[0]))
    for n, v in (('att', 7), ('att', 'hello world'), ('flag', True), ('none', None), ('lst', [1, 'a']), ('map', {'k': {'j': 'q'}}), ('r', 2.5)):
        devs.append(('attr', (n, v)))
    return devs


def cases(tier, seed):
    n = BOUNDS[tier]
    for m in sp.structures_upto(n):
        if in_fragment(m):
            yield ('S', m)
    for m in sp.structures_upto(4, star=True):
        if in_fragment(m) and any(b == -1 and len(k) > 1 for (_p, _a, b, k) in sh.relations(m)) and not any(b == -1 and len(k) == 1 for (_p, _a, b, k) in sh.relations(m)):
            yield ('S', m)
    carriers1 = [m for m in sp.structures_upto(3 if tier == 'quick' else 4) if in_fragment(m)]
    carriers2 = [m for m in sp.structures_upto(2 if tier == 'quick' else 3) if in_fragment(m)]
    seen = set()
    for m in rt.dev_space(carriers1, _level1(), []):
        if m not in seen:
            seen.add(m)
            yield ('D', m)
    for m in rt.dev_space(carriers2, [], _level2()):
        if m not in seen:
            seen.add(m)
            yield ('D', m)
    names = ['x', 'y'] if tier == 'quick' else ['x', 'y', 'z']
    for t in sp.trees(2, names):
        yield ('K', cm.on_carrier([t]))
    if tier == 'quick':
        for t in cm.k2_subset():
            yield ('K', cm.on_carrier([t]))
    from . import families
    for m in families.models():
        if in_fragment(m):
            yield ('S', m)
    for m in rt.fully_decorated(FMT.fields):
        if in_fragment(m):
            yield ('D', m)
    for m in rt.align_models(tier):
        yield ('A', m)
    for m in rt.collision_models():
        yield ('D', m)
    for t in families.long_chains():
        yield ('K', cm.on_carrier([t]))
    for t in families.deep_trees():
        if True:
            yield ('K', cm.on_carrier([t]))
    k1 = cm.k1()
    step = 7 if tier == 'quick' else 2
    for t1 in k1[::step]:
        for t2 in k1[::step]:
            yield ('K', cm.on_carrier([t1, t2]))


def plan(tier):
    return {
        'chunk': 150,
        'bounds': 'S<=%d in the JSON fragment (six relation kinds); decorations: level 1 = every name of %d classes, abstract, '
                  'every JSON attribute value at every position of carriers <=%d; level 2 = class representatives on every pair '
                  'of positions of carriers <=%d; constraints: all trees depth<=2 over %d names incl. XOR, pairs from K_1^3; '
                  '%d write/read cycles' % (BOUNDS[tier], len(rt.NAME_CLASSES), 3 if tier == 'quick' else 4,
                                             2 if tier == 'quick' else 3, 2 if tier == 'quick' else 3, 2 if tier == 'quick' else 3),
        'rule': 'write -> read -> write -> read on every state; read-back compared with the source shadow (names, tree, abstract '
                'as bool, attributes type-strict, named constraints semantically), text and model fix-point, parse_json == file; '
                'non-trivial = group, decoration or constraint',
        'assumptions': ['order-insensitive tree comparison; constraints compared by truth table'],
    }


describe = cm.describe_model_case


def reduce(case):
    for c in cm.reduce_model_case(case):
        if in_fragment(c[1]):
            yield c


def normalize(case):
    return (case[0], sh.normalize_names(case[1], sp.NAME_POOL))


def nontrivial(case):
    return not cm.is_plain(case[1]) or cm.has_group_or_ctc(case[1])


def selftest():
    sem.selftest()


def check(case):
    return rt.roundtrip(FMT, case[1], cycles=2)


def outcome(case):
    return case[0]
