"""C02 - every reader returns a well-formed feature tree with usable constraints."""
from __future__ import annotations

import os

from flamapy.core.models.ast import ASTOperation, AGGREGATION_OPERATORS

from .. import build as bd
from .. import engine, sem
from .. import shadow as sh
from .. import space as sp
from ..engine import Fail
from . import common as cm
from . import c01, c04, c05, c06, c07, c08, c09

ID = 'C02'
RT = {'uvl': c01, 'json': c05, 'afm': c06, 'featureide': c07, 'glencoe': c08}


def cases(tier, seed):
    for name, mod in RT.items():
        for i, case in enumerate(mod.cases('quick', seed)):
            if tier == 'quick' and name == 'uvl' and case[0] != 'K' and i % 3:
                continue
            yield ('RT', name, case[1])
    for case in c04.cases('quick', seed):
        if case[0] == 'P':
            if tier == 'quick' and sum(1 for b in case[2][:-1] if b) not in (0, 1, 8):
                continue
            yield ('C04', case[1], case[2])
    for fmt in ('FIDE', 'GLEN', 'JSON'):
        for op in ('AND', 'OR'):
            yield ('HUGE', fmt, op, 1200)
    for case in c09.cases(tier, seed):
        if case[0] in ('FIDE', 'FAMA', 'AFM', 'GLEN', 'CORPUS'):
            yield ('C09',) + tuple(case)


def plan(tier):
    return {
        'chunk': 100,
        'bounds': 'every model returned by a reader in: the quick-bound round-trip spaces of C01, C05, C06, C07, C08 (library-'
                  'written documents), the independently emitted UVL documents of C04 (%s) and the independently emitted '
                  'FeatureIDE / FaMa / AFM / Glencoe documents and corpus files of C09 (%s bounds)'
                  % ('0, 1 or all surface choices switched on' if tier == 'quick' else 'quick set', tier),
        'rule': 'state invariant on the real object graph by identity: root.parent is None; every non-root feature is a child '
                'of exactly one relation, owned by its recorded parent; no empty relation; attribute.parent is the feature; every '
                'AST node is a term, a NOT/aggregate with its operand on the left, or a binary operator with both operands; '
                'get_features() == names written in the constraint; get_operators / pretty_str / str(model) do not raise; '
                'non-trivial = all',
        'assumptions': ['pretty_str of a one-argument aggregate is a flamapy.core defect and is not exercised'],
    }


def describe(case):
    if case[0] == 'HUGE':
        return 'HUGE:%s %s x %d' % tuple(case[1:])
    if case[0] == 'RT':
        return 'RT:%s | %s' % (case[1], sh.model_str(case[2]))
    if case[0] == 'C04':
        return c04.describe(('P', case[1], case[2]))
    return c09.describe(case[1:])


def reduce(case):
    if case[0] == 'HUGE':
        if case[3] > 40:
            yield ('HUGE', case[1], case[2], case[3] // 2)
        return
    if case[0] == 'RT':
        mod = RT[case[1]]
        for c in mod.reduce(('S', case[2])):
            yield ('RT', case[1], c[1])
    elif case[0] == 'C04':
        for c in c04.reduce(('P', case[1], case[2])):
            yield ('C04', c[1], c[2])
    else:
        for c in c09.reduce(tuple(case[1:])):
            yield ('C09',) + tuple(c)


def nontrivial(case):
    return True


def selftest():
    sem.selftest()


def ast_problems(node, path='root', _seen=None):
    probs = []
    if node is None:
        return ['missing node at ' + path]
    _seen = {} if _seen is None else _seen
    if id(node) in _seen:
        # "an expression tree": one Node object at two positions makes it a graph (an in-place rewrite of one
        # occurrence would silently change the other)
        return ['the Node object at %s also occurs at %s' % (path, _seen[id(node)])]
    _seen[id(node)] = path
    data = node.data
    if isinstance(data, ASTOperation):
        if data == ASTOperation.NOT:
            if node.left is None or node.right is not None:
                probs.append('NOT at %s has left=%s right=%s' % (path, node.left is not None, node.right is not None))
        elif data in AGGREGATION_OPERATORS:
            if node.left is None:
                probs.append('aggregate at %s without left operand' % path)
        else:
            if node.left is None or node.right is None:
                probs.append('%s at %s lacks an operand' % (data.value, path))
        if node.left is not None:
            probs += ast_problems(node.left, path + '.l', _seen)
        if node.right is not None:
            probs += ast_problems(node.right, path + '.r', _seen)
    else:
        if node.left is not None or node.right is not None:
            probs.append('term %r at %s has children' % (data, path))
        if not isinstance(data, (str, int, float)) or isinstance(data, bool):
            probs.append('term at %s is a %s' % (path, type(data).__name__))
    return probs


def invariant(fm, source_ctcs, by_name=False):
    out = []
    try:
        probs = bd.wellformed(fm)
    except Exception as exc:  # noqa: BLE001
        return [Fail('walk-raises:%s' % type(exc).__name__, str(exc)[:200])]
    if probs:
        out.append(Fail('tree-illformed', probs[:4]))
    ctcs = list(fm.ctcs)
    if source_ctcs is not None and len(ctcs) == len(source_ctcs):
        if by_name:
            src = dict(source_ctcs)
            pairs = [(c, src.get(c.name)) for c in ctcs]
        else:
            pairs = list(zip(ctcs, [t for _n, t in source_ctcs]))
    else:
        pairs = [(c, None) for c in ctcs]
    for ctc, src_tree in pairs:
        try:
            probs = ast_problems(ctc.ast.root)
        except Exception as exc:  # noqa: BLE001
            out.append(Fail('ast-walk-raises:%s' % type(exc).__name__, str(exc)[:200]))
            continue
        if probs:
            out.append(Fail('ast-illformed', probs[:3]))
            continue
        obs = bd.obs_tree(ctc.ast.root)
        ops = sh.tree_ops(obs)
        try:
            ctc.ast.get_operators()
            one_arg_agg = _has_one_arg_aggregate(obs)
            if not one_arg_agg:
                ctc.ast.pretty_str()
            str(ctc)
            engine.tick(3)
        except Exception as exc:  # noqa: BLE001
            out.append(Fail('constraint-not-traversable:%s' % type(exc).__name__, sh.tree_str(obs)))
            continue
        if src_tree is not None and not any(o in sh.AGGREGATE for o in ops):
            try:
                got = sorted(ctc.get_features())
            except Exception as exc:  # noqa: BLE001
                out.append(Fail('get_features-raises:%s' % type(exc).__name__, str(exc)[:100]))
                continue
            want = sorted(set(sh.tree_names(src_tree)))
            if got != want:
                out.append(Fail('get_features', {'got': got, 'written': want}))
    try:
        str(fm)
        fm.get_features()
        fm.get_relations()
        engine.tick(3)
    except Exception as exc:  # noqa: BLE001
        out.append(Fail('model-not-traversable:%s' % type(exc).__name__, str(exc)[:200]))
    return out


def _has_one_arg_aggregate(t):
    if isinstance(t, tuple):
        if t[0] in sh.AGGREGATE and t[2] is None:
            return True
        return _has_one_arg_aggregate(t[1]) or (t[2] is not None and _has_one_arg_aggregate(t[2]))
    return False


def _huge_document(fmt, op, n):
    import json
    names = ['P%d' % i for i in range(1, 8)]
    ops = [names[i % 7] for i in range(n)]
    if fmt == 'FIDE':
        tag = 'conj' if op == 'AND' else 'disj'
        feats = ''.join('<feature name="%s"/>' % x for x in names)
        return ('<?xml version="1.0" encoding="UTF-8"?><featureModel><struct><and name="Fa" mandatory="true">%s</and></struct>'
                '<constraints><rule><%s>%s</%s></rule></constraints></featureModel>'
                % (feats, tag, ''.join('<var>%s</var>' % x for x in ops), tag)), 'xml'
    term = {'type': 'AndTerm' if op == 'AND' else 'OrTerm', 'operands': [{'type': 'FeatureTerm', 'operands': [x]} for x in ops]}
    if fmt == 'GLEN':
        table = {'Fa': {'name': 'Fa', 'optional': False, 'type': 'FEATURE', 'note': ''}}
        for x in names:
            table[x] = {'name': x, 'optional': True, 'type': 'FEATURE', 'note': ''}
        return json.dumps({'id': 'FM', 'name': 'FM', 'features': table, 'tree': {'id': 'Fa', 'children': [{'id': x} for x in names]},
                           'constraints': {'c1': term}}), 'gfm.json'
    jterm = {'type': op, 'operands': [{'type': 'FEATURE', 'operands': [x]} for x in ops]}
    root = {'name': 'Fa', 'abstract': False, 'relations': [{'type': 'OPTIONAL', 'card_min': 0, 'card_max': 1,
                                                            'children': [{'name': x, 'abstract': False, 'relations': []}]} for x in names]}
    return json.dumps({'features': root, 'constraints': [{'name': 'c1', 'expr': '', 'ast': jterm}]}), 'json'


def _check_huge(case):
    """A flat n-ary rule with more operands than the interpreter's recursion limit: the readers fold
    it iteratively; the features of the constraint and its operators must still be obtainable."""
    from flamapy.metamodels.fm_metamodel.transformations import FeatureIDEReader, GlencoeReader, JSONReader
    _k, fmt, op, n = case
    doc, ext = _huge_document(fmt, op, n)
    path = engine.tmppath('c02huge.' + ext)
    with open(path, 'w', encoding='utf8') as fh:
        fh.write(doc)
    try:
        fm = {'FIDE': FeatureIDEReader, 'GLEN': GlencoeReader, 'JSON': JSONReader}[fmt](path).transform()
        engine.tick()
    except Exception:  # noqa: BLE001
        return []
    out = []
    try:
        ctc = fm.get_constraints()[0]
        got = sorted(ctc.get_features())
        opsfound = set(o.value for o in ctc.ast.get_operators())
        engine.tick(2)
        if got != ['P%d' % i for i in range(1, 8)]:
            out.append(Fail('get_features', {'got': got[:10]}))
        if opsfound != {op}:
            out.append(Fail('ast-illformed', sorted(opsfound)))
    except Exception as exc:  # noqa: BLE001
        out.append(Fail('constraint-not-traversable:%s' % type(exc).__name__, 'n-ary %s rule with %d operands' % (op, n)))
    if not out:
        engine.validated()
    return out


def check(case):
    kind = case[0]
    if kind == 'HUGE':
        return _check_huge(case)
    if kind == 'RT':
        fmt = RT[case[1]].FMT
        model = case[2]
        fm0, fails = cm.built(model)
        if fails:
            return fails
        path = engine.tmppath('c02.' + fmt.ext)
        try:
            fmt.write(fm0, path)
            fm1 = fmt.read(path)
            engine.tick(2)
        except Exception:  # noqa: BLE001    (round-trip failures are C01/C05-C08's subject)
            return []
        finally:
            try:
                os.remove(path)
            except OSError:
                pass
        engine.validated()
        return invariant(fm1, model[1], by_name=(case[1] == 'glencoe'))
    if kind == 'C04':
        from ..lang import uvl
        from flamapy.metamodels.fm_metamodel.transformations import UVLReader
        doc = uvl.emit(case[1], c04._unkey(case[2]))
        path = engine.tmppath('c02.uvl')
        with open(path, 'w', encoding='utf8') as fh:
            fh.write(doc)
        try:
            fm = UVLReader(path).transform()
            engine.tick()
        except Exception:  # noqa: BLE001
            return []
        engine.validated()
        return invariant(fm, case[1][1])
    sub = tuple(case[1:])
    if sub[0] == 'CORPUS':
        from flamapy.metamodels.fm_metamodel.transformations import XMLReader
        from ..lang import fama
        path = os.path.join(c09.CORPUS, sub[1])
        try:
            fm = XMLReader(path).transform()
            engine.tick()
        except Exception:  # noqa: BLE001
            return []
        engine.validated()
        return invariant(fm, fama.read(path)[1])
    k, model, key = sub
    doc = c09._document(k, model, key)
    path = engine.tmppath('c02.' + c09.EXT[k])
    with open(path, 'w', encoding='utf8') as fh:
        fh.write(doc)
    try:
        fm = c09.READERS[k](path).transform()
        engine.tick()
    except Exception:  # noqa: BLE001
        return []
    engine.validated()
    src = model[1]
    if k == 'AFM':
        from ..lang import afm as _afm
        src = tuple(('e%d' % i, t) for i, t in enumerate(_afm.expected_constraints(model, c09._unkey(_afm, key))))
    return invariant(fm, src, by_name=(k == 'GLEN'))


def outcome(case):
    if case[0] == 'HUGE':
        return 'HUGE'
    return case[0] + ':' + str(case[1] if case[0] != 'C04' else 'uvl')
