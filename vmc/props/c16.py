"""C16 - tree-shape operations match their definitions on every model."""
from __future__ import annotations

import os

from flamapy.metamodels.fm_metamodel.operations import (
    FMAverageBranchingFactor, FMCountLeafs, FMFeatureAncestors, FMLeafFeatures, FMMaxDepthTree,
    FMVariationPoints)
from flamapy.metamodels.fm_metamodel.transformations import XMLReader

from .. import build as bd
from .. import engine, sem
from .. import shadow as sh
from .. import space as sp
from ..engine import Fail
from ..lang import fama
from . import common as cm

ID = 'C16'
BOUNDS = {'quick': 6, 'thorough': 7}
CORPUS = '/repo/resources/models'


def _chain(n, card=(1, 1)):
    f = sh.F('N%d' % (n - 1))
    for i in range(n - 2, -1, -1):
        f = sh.F('N%d' % i, [sh.R(card[0], card[1], [f])])
    return sh.M(f)


def _wide(k, card):
    return sh.M(sh.F('R', [sh.R(card[0], card[1], [sh.F('W%d' % i) for i in range(k)])]))


def _comb(n):
    f = sh.F('L%d' % n)
    for i in range(n - 1, -1, -1):
        f = sh.F('S%d' % i, [sh.R(1, 1, [f]), sh.R(0, 1, [sh.F('T%d' % i)])])
    return sh.M(f)


def _binary(depth, prefix='B'):
    def rec(d, name):
        if d == 0:
            return sh.F(name)
        return sh.F(name, [sh.R(1, 2, [rec(d - 1, name + '0'), rec(d - 1, name + '1')])])
    return sh.M(rec(depth, prefix))


def families():
    out = []
    for n in (10, 50, 200):
        out.append(_chain(n))
        out.append(_chain(n, (0, 1)))
    for k in range(2, 13):
        for card in ((1, 1), (1, k), (0, 1), (2, k), (0, k)):
            out.append(_wide(k, card))
    for n in (3, 10, 40):
        out.append(_comb(n))
    for d in range(1, 7):
        out.append(_binary(d))
    # ratios next to a rounding boundary (children / non-leaf features = x.xx5...)
    for (c, b) in ((130, 107), (191, 107), (243, 200), (1003, 401), (7, 8), (9, 8), (201, 200)):
        if c >= b:
            out.append(_ratio_model(c, b))
    return out


def _ratio_model(children, branches):
    """`branches` non-leaf features with `children` children in total, at most ~50 levels deep:
    the root owns r chains of non-leaf features; extra leaves are hung from the chain nodes."""
    seg = 50
    inner = branches - 1
    r = max(1, -(-inner // seg))
    extra = children - inner - r
    if inner == 0 or extra < 0:
        r, extra = 1, children - branches      # plain chain
    counter = [0]
    chains = []
    left = inner
    for ci in range(r):
        length = min(seg, left) if r > 1 else left
        left -= length
        f = sh.F('Z%d' % ci)
        for k in range(length):
            rels = [sh.R(1, 1, [f])]
            if counter[0] < extra:
                rels.append(sh.R(0, 1, [sh.F('X%d' % counter[0])]))
                counter[0] += 1
            f = sh.F('Y%d_%d' % (ci, k), rels)
        chains.append(f)
    root_rels = [sh.R(1, 1, [c]) for c in chains]
    while counter[0] < extra:
        root_rels.append(sh.R(0, 1, [sh.F('X%d' % counter[0])]))
        counter[0] += 1
    return sh.M(sh.F('Rt', root_rels))


def F_leaf(name):
    return sh.F(name)


def corpus_files(max_features=None):
    out = []
    for root, _dirs, files in os.walk(CORPUS):
        for fn in files:
            if fn.endswith('.xml'):
                p = os.path.join(root, fn)
                if max_features is not None and 'simple_betty_gen_models' in p:
                    try:
                        n = int(os.path.basename(os.path.dirname(p)))
                    except ValueError:
                        n = 0
                    if n > max_features:
                        continue
                out.append(os.path.relpath(p, CORPUS))
    return sorted(out)


def cases(tier, seed):
    for m in sp.structures_upto(BOUNDS[tier]):
        yield ('S', m)
    for m in sp.structures_upto(4, star=True):
        if any(b == -1 for (_p, _a, b, _k) in sh.relations(m)):
            yield ('S', m)
    for m in families():
        yield ('F', m)
    from . import rt
    for m in rt.collision_models():
        yield ('S', (m[0], ()))
    for rel in corpus_files(1000 if tier == 'quick' else None):
        yield ('X', rel)
    for m in sp.structures_upto(3 if tier == 'quick' else 4):
        yield ('SE', m)
    from . import families as fam
    for spec in fam.BIG_SPECS:
        yield ('B', spec)
    # one set of operation objects over two models in a row, and over a failing execution first
    alpha = list(sp.structures_upto(3))
    for m1 in alpha:
        for m2 in alpha:
            yield ('SH', m1, m2)
    for m in list(sp.structures_upto(4 if tier == 'quick' else 5))[1:]:
        yield ('SF', m)


def plan(tier):
    return {
        'chunk': 100 if tier == 'quick' else 300,
        'bounds': 'S<=%d; deterministic families (chains to 200, groups of 2..12, combs, binary trees to depth 6); '
                  'corpus files %s' % (BOUNDS[tier], '<=1000 features' if tier == 'quick' else 'all 1299 (to 20000 features)'),
        'rule': 'every structure state up to the bound, the parametric families and the shipped FaMa/Betty files; each of the '
                'six operations compared with its definition on the shadow tree (for files: an independent ElementTree walker); '
                'ancestors evaluated for every feature; non-trivial = more than one feature',
        'assumptions': ['definitions as stated in C16; corpus files are read by vmc.lang.fama independently of XMLReader'],
    }


def describe(case):
    if case[0] == 'B':
        return 'B:%s' % (case[1],)
    if case[0] == 'X':
        return 'X:' + case[1]
    if case[0] == 'SH':
        return 'SH:%s -> %s' % (sh.model_str(case[1]), sh.model_str(case[2]))
    return cm.describe_model_case(case)


def reduce(case):
    if case[0] in ('X', 'B'):
        return
    if case[0] in ('SE', 'SF'):
        for c in cm.reduce_model_case(('S', case[1])):
            if case[0] == 'SE' or sh.size(c[1]) > 1:
                yield (case[0], c[1])
        return
    if case[0] == 'SH':
        for r in sh.reductions(case[1], sp.NAME_POOL):
            yield ('SH', r, case[2])
        for r in sh.reductions(case[2], sp.NAME_POOL):
            yield ('SH', case[1], r)
        return
    m = case[1]
    if sh.size(m) > 40:
        return
    yield from cm.reduce_model_case(('S',) + tuple(case[1:]))


def normalize(case):
    if case[0] in ('X', 'B', 'SH'):
        return case
    return (case[0], sh.normalize_names(case[1], sp.NAME_POOL))


def nontrivial(case):
    return case[0] in ('X', 'B') or sh.size(case[1]) > 1


def selftest():
    sem.selftest()
    fama.selftest()


def _run(op, fm, clause, out):
    try:
        res = op.execute(fm).get_result()
        engine.tick()
        return True, res
    except Exception as exc:  # noqa: BLE001
        out.append(Fail('%s-raises:%s' % (clause, type(exc).__name__), str(exc)[:200]))
        return False, None


def oracle(fm, model, ops=None):
    out = []
    ops = ops if ops is not None else {}

    def inst(cls):
        return ops.setdefault(cls.__name__, cls()) if ops is not None else cls()
    feats = sh.features(model)
    names = [f[0] for f in feats]
    pm = sh.parent_map(model)
    leaves = sorted(f[0] for f in feats if not f[1])
    ok, res = _run(inst(FMCountLeafs), fm, 'count-leafs', out)
    if ok and (isinstance(res, bool) or res != len(leaves)):
        out.append(Fail('count-leafs', {'got': res, 'want': len(leaves)}))
    ok, res = _run(inst(FMLeafFeatures), fm, 'leaf-features', out)
    if ok:
        got = [f.name for f in res]
        if sorted(got) != leaves:
            out.append(Fail('leaf-features', {'got': got[:20], 'want': leaves[:20]}))
    # depth in edges
    depth = {}
    for n in names:            # preorder: parents first
        depth[n] = 0 if pm[n] is None else depth[pm[n]] + 1
    want_depth = max(depth.values())
    ok, res = _run(inst(FMMaxDepthTree), fm, 'max-depth', out)
    if ok and (isinstance(res, bool) or res != want_depth):
        out.append(Fail('max-depth', {'got': res, 'want': want_depth}))
    nonleaf = [f for f in feats if f[1]]
    ok, res = _run(inst(FMAverageBranchingFactor), fm, 'branching-factor', out)
    if ok:
        if isinstance(res, bool) or not isinstance(res, (int, float)):
            out.append(Fail('branching-factor', {'got': repr(res)}))
        elif nonleaf:
            from fractions import Fraction
            import math
            q = Fraction(sum(len(k) for f in nonleaf for (_a, _b, k) in f[1]), len(nonleaf)) * 100
            lo = math.floor(q)
            frac = q - lo
            wants = {lo / 100} if frac < Fraction(1, 2) else {(lo + 1) / 100} if frac > Fraction(1, 2) else {lo / 100, (lo + 1) / 100}
            if not any(abs(res - w) < 1e-9 for w in wants):
                out.append(Fail('branching-factor', {'got': res, 'want': sorted(wants), 'exact': float(q / 100)}))
    # ancestors for every feature
    byname = {}
    try:
        for f in fm.get_features():
            byname[f.name] = f
    except Exception as exc:  # noqa: BLE001
        out.append(Fail('get_features-raises', str(exc)))
        return out
    for n in names:
        want = []
        p = pm[n]
        while p is not None:
            want.append(p)
            p = pm[p]
        op = inst(FMFeatureAncestors)
        try:
            op.set_feature(byname[n])
            got = [f.name for f in op.execute(fm).get_result()]
            engine.tick()
            if got != want:
                out.append(Fail('ancestors', {'feature': n, 'got': got[:10], 'want': want[:10]}))
                break
        except Exception as exc:  # noqa: BLE001
            out.append(Fail('ancestors-raises:%s' % type(exc).__name__, str(exc)[:200]))
            break
    # variation points
    want_vp = {}
    for f in feats:
        variants = [k[0] for (a, b, ks) in f[1] if not ((a, b) == (1, 1) and len(ks) == 1) for k in ks]
        if variants:
            want_vp[f[0]] = sorted(variants)
    ok, res = _run(inst(FMVariationPoints), fm, 'variation-points', out)
    if ok:
        try:
            got = {k.name: sorted(v.name for v in vs) for k, vs in res.items()}
            dup = any(len(vs) != len(set(x.name for x in vs)) for vs in res.values())
        except Exception as exc:  # noqa: BLE001
            out.append(Fail('variation-points', 'not a mapping feature -> features: %s' % exc))
        else:
            if got != want_vp or dup:
                out.append(Fail('variation-points', {'got': dict(list(got.items())[:5]), 'want': dict(list(want_vp.items())[:5])}))
    return out


def check(case):
    if case[0] == 'X':
        path = os.path.join(CORPUS, case[1])
        model = fama.read(path)
        try:
            fm = XMLReader(path).transform()
            engine.tick()
        except Exception as exc:  # noqa: BLE001
            return [Fail('xmlreader-raises:%s' % type(exc).__name__, str(exc)[:200])]
        engine.validated()
        return oracle(fm, model)
    if case[0] == 'B':
        from . import families as fam
        model = fam.big_build(case[1])
        fm, fails = cm.built(model)
        return fails or oracle(fm, model)
    model = case[1]
    if case[0] == 'SE':
        from .c03 import inplace_edits
        for (what, edit, em) in inplace_edits(model):
            fm, fails = cm.built(model)
            if fails:
                return fails
            ops = {}
            warm = oracle(fm, model, ops)
            if warm:
                return warm
            try:
                cm.checked_edit(fm, edit, model, em, what)
            except cm.ModelMutatedByLibrary as exc:
                return [Fail('operations-mutate-the-model', str(exc)[:300])]
            after = oracle(fm, em, ops)
            for f in after:
                f.clause = 'after-inplace-edit:' + f.clause
                f.detail = {'edit': what, 'info': f.detail}
            if after:
                return after
        return []
    if case[0] == 'SH':
        ops = {}
        fm, fails = cm.built(model)
        if fails:
            return fails
        first = oracle(fm, model, ops)
        if first:
            return first
        held = {name: (op.get_result(), _plain(op.get_result())) for name, op in ops.items()}
        fm2, fails = cm.built(case[2])
        if fails:
            return fails
        second = oracle(fm2, case[2], ops)
        for f in second:
            f.clause = 'after-another-model:' + f.clause
        if not second:
            for name, (obj, was) in held.items():
                if _plain(obj) != was:
                    second.append(Fail('earlier-result-changed-by-later-execution:' + name, {'was': repr(was)[:150], 'now': repr(_plain(obj))[:150]}))
                    break
        return second
    if case[0] == 'SF':
        return _failure_history(model)
    fm, fails = cm.built(model)
    if fails:
        return fails
    return oracle(fm, model)


def _plain(res):
    if isinstance(res, dict):
        return tuple(sorted((getattr(k, 'name', k), tuple(getattr(v, 'name', v) for v in vs)) for k, vs in res.items()))
    if isinstance(res, (list, tuple)):
        return tuple(getattr(x, 'name', x) for x in res)
    return res


FOREIGN = sh.M(sh.F('Zq', [sh.R(1, 1, [sh.F('Yq')]), sh.R(0, 1, [sh.F('Xq')])]))


def _failure_history(model):
    """Executions that raise half-way on an ill-formed variant of the model (one child is not a
    Feature), then the well-formed model with the same operation objects."""
    for path, _f in list(sh._paths(model[0]))[1:]:
        for marker in ('__ALIEN_STR__', '__ALIEN_NONE__'):
            bad = (sh._replace_feature(model[0], list(path), lambda g, marker=marker: (marker, (), g[2], g[3], g[4], g[5])), model[1])
            ops = {}
            try:
                oracle(bd.build(bad), bad, ops)
            except Exception:  # noqa: BLE001
                pass
            fm, fails = cm.built(model)
            if fails:
                return fails
            after = oracle(fm, model, ops)
            if not after:
                after = oracle(bd.build(model), model)      # fresh objects: state outside the operation objects
            for f in after:
                f.clause = 'after-failed-execution:' + f.clause
                f.detail = {'first': '%s at %s' % (marker, list(path)), 'info': f.detail}
            if after:
                return after
    # ancestors: the feature is set once; an execution on a model that does not contain it is rejected,
    # the execution on its own model afterwards gives its ancestors
    fm, fails = cm.built(model)
    if fails:
        return fails
    pm = sh.parent_map(model)
    for feat in fm.get_features():
        op = FMFeatureAncestors()
        op.set_feature(feat)
        try:
            op.execute(bd.build(FOREIGN))
        except Exception:  # noqa: BLE001
            pass
        engine.tick()
        want = []
        p = pm[feat.name]
        while p is not None:
            want.append(p)
            p = pm[p]
        try:
            got = [f.name for f in op.execute(fm).get_result()]
        except Exception as exc:  # noqa: BLE001
            return [Fail('after-failed-execution:ancestors-raises:%s' % type(exc).__name__, {'feature': feat.name, 'msg': str(exc)[:200]})]
        if got != want:
            return [Fail('after-failed-execution:ancestors', {'feature': feat.name, 'got': got, 'want': want})]
    return []


def outcome(case):
    if case[0] == 'B':
        return 'big'
    if case[0] == 'X':
        return 'file:' + case[1].split('/')[0]
    return 'leaves=%d' % sum(1 for f in sh.features(case[1]) if not f[1])
