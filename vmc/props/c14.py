"""C14 - core features are exactly the always-selected features of the tree."""
from __future__ import annotations

from flamapy.metamodels.fm_metamodel.operations import FMCoreFeatures

from .. import engine, sem
from .. import shadow as sh
from ..engine import Fail
from . import common as cm
from . import opscfg

ID = 'C14'
cases, describe, reduce, nontrivial = opscfg.cases, opscfg.describe, opscfg.reduce, opscfg.nontrivial


def plan(tier):
    return opscfg.plan(tier, 'returned features are in every valid configuration, once each, root included; '
                             'without constraints the set equals the intersection of all configurations')


def selftest():
    sem.selftest()


def judge(res, model):
    names = [f.name for f in res]
    out = []
    if len(names) != len(set(names)):
        out.append(Fail('duplicates', names))
    if model[0][0] not in names:
        out.append(Fail('root-missing', names))
    if sh.size(model) > 16:
        always = sem.core_structural(model)
        if set(names) != set(always):
            out.append(Fail('core-missing' if always - set(names) else 'not-always-selected',
                            {'returned': len(names), 'expected': len(always), 'example': sorted(always ^ set(names))[:4]}))
        return out
    tcs = sem.tree_configs_cached(model)
    cfgs = [s for s in tcs if all(sem.ev(t, s) for _n, t in model[1])]
    if cfgs:
        always = frozenset.intersection(*cfgs)
        if not model[1] and always != sem.core_structural(model):
            raise AssertionError('reference core computations disagree on %r' % (model,))
        extra = [n for n in names if n not in always]
        if extra:
            out.append(Fail('not-always-selected', {'returned': names, 'not_core': extra}))
        if not model[1]:
            missing = sorted(always - set(names))
            if missing:
                out.append(Fail('core-missing', {'returned': names, 'missing': missing}))
    return out


def check(case):
    model = opscfg.resolve(case)
    if case[0] == 'SE':
        return opscfg.edit_history(model, FMCoreFeatures, judge)
    fm, fails = cm.built(model)
    if fails:
        return fails
    try:
        res = FMCoreFeatures().execute(fm).get_result()
        engine.tick()
        [f.name for f in res]
    except Exception as exc:  # noqa: BLE001
        return [Fail('raises:%s' % type(exc).__name__, str(exc))]
    return judge(res, model)


def outcome(case):
    if case[0] == 'B':
        return 'big'
    if sh.size(case[1]) > 16:
        return 'big'
    tcs = sem.tree_configs_cached(case[1])
    return 'core=%d' % len(frozenset.intersection(*tcs)) if tcs else 'void'
