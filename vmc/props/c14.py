"""C14 - core features are exactly the always-selected features of the tree."""
from __future__ import annotations

from flamapy.metamodels.fm_metamodel.operations import FMCoreFeatures

from .. import engine, sem
from .. import shadow as sh
from ..engine import Fail
from . import common as cm
from . import opscfg

ID = 'C14'
describe_base, reduce, nontrivial = opscfg.describe, opscfg.reduce, opscfg.nontrivial


def cases(tier, seed):
    yield from opscfg.cases(tier, seed)
    # chains deeper than the interpreter's recursion limit (the operation walks them with a work list)
    for n in (1500, 2500):
        for card in ((1, 1), (0, 1)):
            yield ('DC', n, card)
    yield ('DC', 120000, (1, 1))      # more always-selected features than any round number a traversal might be capped at


def describe(case):
    if case[0] == 'DC':
        return 'DC:chain of %d features, cardinality %s' % (case[1], case[2])
    return describe_base(case)


def plan(tier):
    return opscfg.plan(tier, 'returned features are in every valid configuration, once each, root included; '
                             'without constraints the set equals the intersection of all configurations')


def selftest():
    sem.selftest()


def judge(res, model):
    names = [f.name for f in res]
    out = []
    if len(names) != len(set(names)):
        out.append(Fail('duplicates', names))
    if model[0][0] not in names:
        out.append(Fail('root-missing', names))
    if sh.size(model) > 16:
        always = sem.core_structural(model)
        if set(names) != set(always):
            out.append(Fail('core-missing' if always - set(names) else 'not-always-selected',
                            {'returned': len(names), 'expected': len(always), 'example': sorted(always ^ set(names))[:4]}))
        return out
    tcs = sem.tree_configs_cached(model)
    cfgs = [s for s in tcs if all(sem.ev(t, s) for _n, t in model[1])]
    if cfgs:
        always = frozenset.intersection(*cfgs)
        if not model[1] and always != sem.core_structural(model):
            raise AssertionError('reference core computations disagree on %r' % (model,))
        extra = [n for n in names if n not in always]
        if extra:
            out.append(Fail('not-always-selected', {'returned': names, 'not_core': extra}))
        if not model[1]:
            missing = sorted(always - set(names))
            if missing:
                out.append(Fail('core-missing', {'returned': names, 'missing': missing}))
    return out


def _deep_chain(case):
    from flamapy.metamodels.fm_metamodel.models import Feature, FeatureModel, Relation
    _k, n, card = case
    feats = [Feature('N%d' % i, []) for i in range(n)]
    for i in range(n - 1):
        feats[i].add_relation(Relation(feats[i], [feats[i + 1]], card[0], card[1]))
    fm = FeatureModel(feats[0], [])
    engine.tick(n)
    try:
        res = [f.name for f in FMCoreFeatures().execute(fm).get_result()]
        engine.note(sorted(map(repr, res)))
    except Exception as exc:  # noqa: BLE001
        return [Fail('raises:%s' % type(exc).__name__, 'chain of %d features' % n)]
    want = ['N%d' % i for i in range(n)] if card == (1, 1) else ['N0']
    if sorted(res) != sorted(want):
        return [Fail('core-missing' if len(res) < len(want) else 'not-always-selected', {'returned': len(res), 'expected': len(want)})]
    engine.validated()
    return []


def check(case):
    if case[0] == 'DC':
        return _deep_chain(case)
    model = opscfg.resolve(case)
    if case[0] == 'SE':
        return opscfg.edit_history(model, FMCoreFeatures, judge)
    if case[0] == 'ST':
        return opscfg.overlap(case[1], case[2], FMCoreFeatures, judge)
    if case[0] == 'SF':
        return opscfg.failure_history(model, FMCoreFeatures, judge)
    if case[0] == 'SO':
        return opscfg.result_ownership(model, FMCoreFeatures, judge)
    fm, fails = cm.built(model)
    if fails:
        return fails
    try:
        res = FMCoreFeatures().execute(fm).get_result()
        engine.tick()
        [f.name for f in res]
    except Exception as exc:  # noqa: BLE001
        return [Fail('raises:%s' % type(exc).__name__, str(exc))]
    return judge(res, model)


def outcome(case):
    if case[0] == 'DC':
        return 'deep-chain'
    if case[0] == 'B':
        return 'big'
    if sh.size(case[1]) > 16:
        return 'big'
    tcs = sem.tree_configs_cached(case[1])
    return 'core=%d' % len(frozenset.intersection(*tcs)) if tcs else 'void'
