"""Generic write/read round-trip exploration shared by C01, C05, C06, C07, C08."""
from __future__ import annotations

import itertools
import os

from .. import build as bd
from .. import engine, sem
from .. import shadow as sh
from .. import space as sp
from ..engine import Fail
from . import common as cm

# --------------------------------------------------------------------------- alphabets (DESIGN 2.2)
NAME_CLASSES = {
    'digit': ('1ab', '2cd'),
    'underscore': ('_ab', '_cd'),
    'space': ('a b', 'c d e'),
    'punct': ('a-b', 'a(b)', 'a,b', 'a#b', "a'b", 'a:b', 'a/b', 'a+b', 'a=b', 'a!b', 'a|b', 'a&b;c', '[ab]', '{ab}', 'a[3,]', 'a, }', 'x,}', 'a[ 2 ]', 'a,  b', 'x" ]'),
    'uvlkw': ('or', 'features', 'mandatory', 'constraints', 'true', 'Boolean', 'sum', 'as', 'alternative', 'optional',
              'namespace', 'imports', 'include', 'cardinality', 'Integer', 'String', 'Real', 'false', 'avg', 'len',
              'floor', 'ceil', 'requires', 'excludes', 'abstract'),
    'opword': ('AND', 'NOT', 'SUM', 'EQUALS', 'OR', 'XOR', 'IMPLIES', 'REQUIRES', 'EXCLUDES', 'EQUIVALENCE', 'ADD', 'LEN'),
    'nonascii': ('ñu', '日本', 'ä', 'Ünï'),
    'xml': ('a<b', 'a&b', 'a"b', 'a>b'),
    'json': ('a\\b', 'a"b', 'a\tb', 'a\\"b', 'C:\\Program\\x64', 'a\\x09b', 'a\\n', 'a\\u0041b', 'a&#10;b', 'a&amp;b', '%41b'),
    'dotted': ('a.b', 'a.b.c', 'a b.c d', 'v1.0-beta', '.ab', 'ab.'),
    'quote-edge': ('"ab"', "'ab'", '"', 'a"'),
    'nl': ('a\nb',),
    'ws-edge': (' lead', 'trail ', ' both '),
    'unicode-edge': ('Sensor\u0663', 'Auto\ufeffSave', 'a\u2028b', 'a\u0085b', 'Caf\u00e9', 'Cafe\u0301', '\u212b', 'a\u00a0b', 'x\u00ad'),
    'numberlike': ('2', '64', '1.0', '1e3', 'nan', 'inf', '-1', '1_000', '0x1F', ' 7 ', '\u0663'),
    'dashes': ('a--b', '--', 'a-->b', "A'", "x''", "'a", '<!--a', '-O2', '-g', '_', '__', '-'),
    'rare': ('100%', 'e\u0301', 'a\u200bb', '\U0001f642x', 'n' * 120, 'a\\', '%d{0}', 'A', 'x_1_'),
}

ATTR_VALUES = (None, True, False, 0, 1, 1.0, 0.0, 7, -3, 2.5, -0.25, 100.0, 'x', 'hello world', 'ünï', [], [1, 'a'], [True, [2, 3]],
               {'k': 1}, {'k': {'j': 'q'}}, '', 'it\'s', 'a.b', 1e-07, 12345678901234567890, [None], {'a b': 2.5},
               {'k': [1, {'z': True}]}, [[1, 2], [3, 4]], 0.30000000000000004, -12345, 'say "hi"', 'a, b} c [d', ' lead',
               {'m': {'n': {'o': -1.5}}}, [False, 'x', 2.25], 2 ** 31, 2 ** 63 + 1, -2 ** 40, 9007199254740993, 123456.789,
               2 ** 53 + 1, 2 ** 63 - 1, -9007199254740993, '90071992547409931234', '-18446744073709551617', '4711', '007', '1e5', 'true', 'null',
               'x' * 300, [1, 2, 3, 4, 5, 6, 7, 8, 9, 10, 11, 12], {'k%d' % i: i for i in range(12)},
               'a\r\nb', '\r', 'a\rb', 'a\nb', '\n', 'tab\there', {'abstract': True, 'owner': 'core'}, [{'abstract': True}],
               {'meta': {'abstract': 'yes', 'name': 'n', 'type': 't'}}, '10', '-3', '2.50',
               [[0, 0, 0], [0, 0, 0]], {'a': [1, 2], 'b': [1, 2]}, [{'k': 1}, {'k': 1}],
               [{'name': 'timeout', 'value': 30}, {'name': 'x', 'value': 1}], {'m': [{'name': 'a', 'value': 1}]}, {'name': 'n', 'value': 2},
               'C:\\new\\bin', 'a\\rb', '\\\\n', 'tab\\t', {'type': 'panel', 'children': [1]}, {'type': 'and', 'operands': ['x']},
               {}, [[]], [[], []], {'k': {}}, {'k': []}, [{}], [0], [False], {'k': None}, [1.0], {'k': 0.0})

# attribute names that coincide with keys / keywords the formats use for something else
ATTR_NAME_DEVS = (('abstract', True), ('abstract', None), ('abstract', 'summary of the paper'), ('abstract', False), ('Abstract', True),
                  ('name', 'x'), ('type', 'x'), ('cardinality', 1), ('relations', [1, 2]), ('attributes', {'k': 1}), ('value', 2),
                  ('card_min', 1), ('children', []), ('constraints', 'x'), ('expr', 'y'), ('features', 1), ('id', 'zz'),
                  ('optional', True), ('default', 3), ('null', 4))

FTYPES = ('Integer', 'Real', 'String')
FCARDS = ((0, 1), (1, 3), (2, 2), (1, -1), (0, -1))


def set_feature(model, idx, fn):
    """Replace the idx-th feature (preorder) by fn(feature)."""
    paths = [p for p, _f in sh._paths(model[0])]
    return (sh._replace_feature(model[0], list(paths[idx]), fn), model[1])


def rename(model, idx, new):
    old = sh.names(model)[idx]
    m = set_feature(model, idx, lambda f: (new,) + f[1:])
    ctcs = tuple((n, cm.map_names(t, {old: new})) for n, t in m[1])
    return (m[0], ctcs)


def deviation(model, idx, dev):
    kind, val = dev
    if kind == 'name':
        return rename(model, idx, val)
    if kind == 'abstract':
        return set_feature(model, idx, lambda f: (f[0], f[1], True, f[3], f[4], f[5]))
    if kind == 'ftype':
        return set_feature(model, idx, lambda f: (f[0], f[1], f[2], val, f[4], f[5]))
    if kind == 'fcard':
        return set_feature(model, idx, lambda f: (f[0], f[1], f[2], f[3], tuple(val), f[5]))
    if kind == 'attr':
        return set_feature(model, idx, lambda f: (f[0], f[1], f[2], f[3], f[4], f[5] + ((val[0], sh.freeze(val[1])),)))
    raise ValueError(kind)


def dev_space(carriers, level1, level2, ctc_for_names=True):
    """Deviation-bounded decoration space: 0, 1 (every member of level1 at every position of
    every carrier) and 2 deviations (level2 representatives on every pair of positions)."""
    for m in carriers:
        yield m
    for m in carriers:
        n = sh.size(m)
        for i in range(n):
            for dev in level1:
                m1 = deviation(m, i, dev)
                yield m1
                if dev[0] == 'name' and ctc_for_names and n >= 2:
                    other = sh.names(m1)[(i + 1) % n]
                    yield (m1[0], (('c1', ('REQUIRES', dev[1], other)),))
                    yield (m1[0], (('c1', ('OR', ('NOT', other, None), dev[1])),))
    for m in carriers:
        n = sh.size(m)
        for i, j in itertools.product(range(n), repeat=2):
            for d1, d2 in itertools.product(level2, repeat=2):
                if i == j and (d1[0] == d2[0] and d1[0] != 'attr' or d1 == d2):
                    continue
                if i > j and d1[0] != 'attr':
                    continue
                if d1[0] == 'name' and d2[0] == 'name' and d1[1] == d2[1]:
                    continue
                if d1[0] == 'attr' and d2[0] == 'attr' and d1[1][0] == d2[1][0] and i == j:
                    continue
                yield deviation(deviation(m, i, d1), j, d2)


# --------------------------------------------------------------------------- comparison

def canon_unordered(f):
    """Order-insensitive canonical form of a feature tree (relations as a multiset, children
    as a set)."""
    rels = sorted(((a, b, tuple(sorted((canon_unordered(k) for k in kids), key=repr))) for (a, b, kids) in f[1]), key=repr)
    return (f[0], tuple(rels))


def tree_facts(model):
    """name -> (parent, multiset of (min,max,frozenset(children names)))."""
    pm = sh.parent_map(model)
    facts = {}
    for f in sh.features(model):
        facts[f[0]] = (pm[f[0]], tuple(sorted(((a, b, tuple(sorted(k[0] for k in kids))) for (a, b, kids) in f[1]), key=repr)))
    return facts


def ctc_equivalent(t1, t2):
    """Semantic equivalence for logical trees over names; structural equality otherwise."""
    if t1 == t2:
        return True
    try:
        if all(o in sh.LOGICAL for o in sh.tree_ops(t1) + sh.tree_ops(t2)) and _terms_are_names(t1) and _terms_are_names(t2):
            names = sorted(set(sh.tree_names(t1)) | set(sh.tree_names(t2)))
            if len(names) > 12:
                return False
            return sem.equivalent(t1, t2, names)
    except sem.Uninterpretable:
        return False
    return _arith_equal(t1, t2)


def _terms_are_names(t):
    if t is None:
        return False
    if isinstance(t, tuple):
        if t[0] == 'NOT':
            return t[2] is None and _terms_are_names(t[1])
        return _terms_are_names(t[1]) and _terms_are_names(t[2])
    return isinstance(t, str) and not t.startswith("'")


def _arith_equal(t1, t2):
    """Structural equality up to the writer's liberty of re-reading `requires` as `implies`,
    `excludes` as `implies not`; numbers compared by value and type."""
    def norm(t):
        if t is None:
            return None
        if isinstance(t, tuple):
            op = t[0]
            if op == 'REQUIRES':
                op = 'IMPLIES'
            if op == 'EXCLUDES':
                return ('IMPLIES', norm(t[1]), ('NOT', norm(t[2]), None))
            return (op, norm(t[1]), norm(t[2]))
        return (type(t).__name__, t)
    return norm(t1) == norm(t2)


class Format:
    name = '?'
    ext = 'txt'
    binary = False
    writer_cls = None
    reader_cls = None
    reuse_stride = 1               # quick tier: object-reuse histories on every n-th state (by state hash)
    compare_order = False          # children/relations order must be preserved
    star_ok = False                # card_max -1 may come back as the number of children

    def write(self, fm, path):
        raise NotImplementedError

    def read(self, path):
        raise NotImplementedError

    def extra_checks(self, model, fm0, text0, path, out):
        return None


def roundtrip(fmt, model, cycles=2):
    """write -> read -> write -> read ... ; returns list of Fail."""
    out = []
    fm0, fails = cm.built(model)
    if fails:
        return fails
    p0 = engine.tmppath('rt0.' + fmt.ext)
    p1 = engine.tmppath('rt1.' + fmt.ext)
    try:
        t0 = fmt.write(fm0, p0)
        engine.tick()
        engine.note(t0)
    except Exception as exc:  # noqa: BLE001
        return [Fail('write-raises:%s' % type(exc).__name__, str(exc)[:200])]
    if bd.observe(fm0) != model:
        out.append(Fail('writer-mutates-model', cm._safe_str(bd.observe(fm0))))
    try:
        data = open(p0, 'rb').read()
        on_disk = data if isinstance(t0, bytes) else data.decode('utf8')
        if on_disk != t0:
            out.append(Fail('return!=file', None))
    except Exception as exc:  # noqa: BLE001
        out.append(Fail('file-not-utf8:%s' % type(exc).__name__, str(exc)[:100]))
    try:
        fm1 = fmt.read(p0)
        engine.tick()
        ob1 = bd.observe(fm1)
    except Exception as exc:  # noqa: BLE001
        out.append(Fail('read-raises:%s' % type(exc).__name__, str(exc)[:200]))
        return out
    compare(fmt, model, ob1, out)
    probs = bd.wellformed(fm1)
    if probs:
        out.append(Fail('readback-not-wellformed', probs[:4]))
    if any(f.clause == 'names' for f in out):
        return out      # later generations would only repeat the same loss
    fmt.extra_checks(model, fm0, t0, p0, out)
    # further cycles: "repeating the cycle changes nothing further" - the generation read back
    # (ob1) must reproduce itself, and the text written from it must be stable.
    prev_text, prev_ob, fm_prev = None, ob1, fm1
    for c in range(1, cycles + 2):
        try:
            t = fmt.write(fm_prev, p1)
            engine.tick()
        except Exception as exc:  # noqa: BLE001
            out.append(Fail('rewrite-raises:%s' % type(exc).__name__, {'cycle': c, 'msg': str(exc)[:200]}))
            break
        if prev_text is not None and t != prev_text:
            out.append(Fail('text-not-fixpoint', {'cycle': c, 'before': _short(prev_text), 'after': _short(t)}))
        try:
            fm_n = fmt.read(p1)
            engine.tick()
            ob_n = bd.observe(fm_n)
        except Exception as exc:  # noqa: BLE001
            out.append(Fail('reread-raises:%s' % type(exc).__name__, {'cycle': c, 'msg': str(exc)[:200]}))
            break
        if ob_n != prev_ob:
            out.append(Fail('model-not-fixpoint', {'cycle': c, 'before': cm._safe_str(prev_ob), 'after': cm._safe_str(ob_n)}))
        if (prev_text is not None and t != prev_text) or ob_n != prev_ob:
            break
        prev_text, prev_ob, fm_prev = t, ob_n, fm_n
    if not out and fmt.writer_cls is not None and sh.size(model) <= REUSE_MAX_SIZE and \
            (engine.TIER['tier'] != 'quick' or fmt.reuse_stride <= 1 or int(engine.case_key(model)[:6], 16) % fmt.reuse_stride == 0):
        try:
            reuse(fmt, model, t0, ob1, out)
        except AssertionError:
            raise
        except Exception as exc:  # noqa: BLE001
            out.append(Fail('reuse-raises:%s' % type(exc).__name__, str(exc)[:200]))
    for p in (p0, p1):
        try:
            os.remove(p)
        except OSError:
            pass
    return out


REUSE_MAX_SIZE = 4


def reuse(fmt, model, text0, ob1, out):
    """Histories on one writer / one reader object, and on one model object edited in place.
    Every expectation is differential: what a fresh object gives for the same content."""
    from .c03 import inplace_edits
    pa = engine.tmppath('ru_a.' + fmt.ext)
    pb = engine.tmppath('ru_b.' + fmt.ext)
    other = OTHER_MODEL if model[0][0] != OTHER_MODEL[0][0] else OTHER_MODEL2
    other_text = fmt.write(bd.build(other), pb)
    other_ob = bd.observe(fmt.read(pb))
    try:
        # --- one reader object: twice on the same file, then on the re-written file, then after a failure
        fmt.write(bd.build(model), pa)
        rd = fmt.reader_cls(pa)
        first = rd.transform()
        second = rd.transform()
        engine.tick(2)
        if bd.observe(second) != ob1:
            out.append(Fail('reader-reuse:second-transform-differs', {'first': cm._safe_str(ob1), 'second': cm._safe_str(bd.observe(second))}))
            return
        if bd.observe(first) != ob1:
            out.append(Fail('reader-reuse:earlier-result-changed', {'was': cm._safe_str(ob1), 'now': cm._safe_str(bd.observe(first))}))
            return
        _put(pa, other_text)
        third = rd.transform()
        engine.tick()
        if bd.observe(third) != other_ob:
            out.append(Fail('reader-reuse:rewritten-file', {'file now denotes': cm._safe_str(other_ob), 'read': cm._safe_str(bd.observe(third))}))
            return
        damaged = _damage(text0)
        if damaged is not None:
            _put(pa, damaged)
            rd2 = fmt.reader_cls(pa)
            raised = []
            for _i in range(2):
                try:
                    rd2.transform()
                    raised.append(False)
                except Exception:  # noqa: BLE001
                    raised.append(True)
            engine.tick(2)
            if raised[0] and not raised[1]:
                out.append(Fail('reader-reuse:damaged-document-accepted-at-second-attempt', {'document': _short(damaged)}))
                return
            if raised[0]:
                _put(pa, text0)
                again = rd2.transform()
                if bd.observe(again) != ob1:
                    out.append(Fail('reader-reuse:after-failed-transform', {'want': cm._safe_str(ob1), 'read': cm._safe_str(bd.observe(again))}))
                    return
        # --- a bare relative file name as destination and as source
        bad = cm.bare_name_write(fmt.writer_cls, bd.build(model), fmt.ext, text0)
        if bad is not None:
            out.append(bad)
            return
        cwd = os.getcwd()
        try:
            os.chdir(os.path.dirname(pa))
            _put(pa, text0)
            rel_ob = bd.observe(fmt.reader_cls(os.path.basename(pa)).transform())
        finally:
            os.chdir(cwd)
        if rel_ob != ob1:
            out.append(Fail('relative-source:different-model', {'absolute': cm._safe_str(ob1), 'relative': cm._safe_str(rel_ob)}))
            return
        # --- one writer object: twice, after an in-place edit, after a failing call
        fm = bd.build(model)
        wr = fmt.writer_cls(pa, fm)
        a = wr.transform()
        b = wr.transform()
        engine.tick(2)
        if a != text0 or b != text0:
            out.append(Fail('writer-reuse:repeated-transform-differs', {'fresh': _short(text0), 'first': _short(a), 'second': _short(b)}))
            return
        edits = inplace_edits(model)
        step = max(1, len(edits) // REUSE_EDITS)
        chosen = [e for e in edits if e[0].startswith('constraint ')] + edits[::step]
        if any(f[5] or f[2] for f in sh.features(model)):
            chosen += [e for e in edits if e[0].startswith('move ') or e[0].startswith('remove ')]     # decorated features change their position
        for (what, edit, em) in chosen:
            try:
                want = fmt.write(bd.build(em), pb)
            except Exception:  # noqa: BLE001   (edited model outside the format's fragment)
                continue
            fm = bd.build(model)
            wr = fmt.writer_cls(pa, fm)
            wr.transform()
            cm.checked_edit(fm, edit, model, em, what)
            got = wr.transform()
            engine.tick(3)
            if got != want:
                out.append(Fail('writer-reuse:after-inplace-edit', {'edit': what, 'fresh writer': _short(want), 'reused writer': _short(got)}))
                return
            got2 = fmt.write(fm, pa)
            if got2 != want:
                out.append(Fail('write-after-inplace-edit', {'edit': what, 'fresh model': _short(want), 'edited model': _short(got2)}))
                return
        # a transform that raises half-way (one child is not a Feature), repaired in place, same writer again
        for path, _f in list(sh._paths(model[0]))[1:]:
            fm = bd.build(model)
            wr = fmt.writer_cls(pa, fm)
            obj = fm.root
            for (ri, ci) in path[:-1]:
                obj = obj.relations[ri].children[ci]
            ri, ci = path[-1]
            kids = obj.relations[ri].children
            good = kids[ci]
            kids[ci] = None
            try:
                wr.transform()
                failed = False
            except Exception:  # noqa: BLE001
                failed = True
            kids[ci] = good
            engine.tick()
            if not failed:
                continue
            got = wr.transform()
            if got != text0:
                out.append(Fail('writer-reuse:after-failed-transform', {'fresh writer': _short(text0), 'reused writer': _short(got)}))
                return
            got = fmt.write(bd.build(model), pa)
            if got != text0:
                out.append(Fail('write-after-failed-transform', {'before': _short(text0), 'after': _short(got)}))
                return
    finally:
        for p in (pa, pb):
            try:
                os.remove(p)
            except OSError:
                pass


REUSE_EDITS = 6
OTHER_MODEL = sh.M(sh.F('Zq', [sh.R(0, 1, [sh.F('Yq')]), sh.R(1, 1, [sh.F('Xq')])]), [('k9', ('IMPLIES', 'Yq', 'Xq'))])
OTHER_MODEL2 = sh.M(sh.F('Wq', [sh.R(0, 1, [sh.F('Yq')]), sh.R(1, 1, [sh.F('Xq')])]), [('k9', ('IMPLIES', 'Yq', 'Xq'))])


def _put(path, text):
    with open(path, 'wb') as fh:
        fh.write(text if isinstance(text, bytes) else text.encode('utf8'))


def _damage(text):
    """A document that is certainly not well-formed: the second half is cut off inside a token."""
    if isinstance(text, bytes):
        return text[:max(1, len(text) * 2 // 3)] + b'<<<'
    if len(text) < 8:
        return None
    return text[:len(text) * 2 // 3] + ' {{{ [[[ "'


def _short(t):
    if isinstance(t, bytes):
        t = t.decode('utf8', 'replace')
    return t if len(t) < 400 else t[:200] + ' ... ' + t[-150:]


def compare(fmt, model, ob, out):
    """Compare the source shadow with the observation of the read-back model."""
    try:
        src_names = sh.names(model)
        got_names = [f[0] for f in sh.features(ob)]
    except Exception as exc:  # noqa: BLE001
        out.append(Fail('readback-not-a-tree', str(exc)[:200]))
        return
    if sorted(map(repr, src_names)) != sorted(map(repr, got_names)):
        out.append(Fail('names', {'source': src_names, 'read': got_names}))
        return
    if ob[0][0] != model[0][0]:
        out.append(Fail('root', {'source': model[0][0], 'read': ob[0][0]}))
    src_facts, got_facts = tree_facts(model), tree_facts(ob)
    if fmt.star_ok:
        # [n..*] may come back as -1 or as the number of children
        def starnorm(facts):
            return {k: (p, tuple(sorted(((a, (len(ks) if b == -1 else b), ks) for (a, b, ks) in rels), key=repr)))
                    for k, (p, rels) in facts.items()}
        same_tree = starnorm(src_facts) == starnorm(got_facts)
    else:
        same_tree = src_facts == got_facts
    if not same_tree:
        diff = [k for k in src_facts if src_facts[k] != got_facts.get(k)]
        out.append(Fail('tree', {'feature': diff[:3], 'source': [src_facts[k] for k in diff[:3]],
                                 'read': [got_facts.get(k) for k in diff[:3]]}))
    if fmt.compare_order and same_tree and canon_order(model) != canon_order(ob):
        out.append(Fail('order', None))
    gf = {f[0]: f for f in sh.features(ob)}
    for f in sh.features(model):
        g = gf[f[0]]
        if g[2] is not f[2] and 'abstract' in fmt.fields:
            out.append(Fail('abstract', {'feature': f[0], 'source': f[2], 'read': g[2]}))
            break
    for f in sh.features(model):
        g = gf[f[0]]
        if 'ftype' in fmt.fields and g[3] != f[3]:
            out.append(Fail('feature-type', {'feature': f[0], 'source': f[3], 'read': g[3]}))
            break
    for f in sh.features(model):
        g = gf[f[0]]
        if 'fcard' in fmt.fields and tuple(g[4]) != tuple(f[4]):
            out.append(Fail('feature-cardinality', {'feature': f[0], 'source': f[4], 'read': g[4]}))
            break
    for f in sh.features(model):
        g = gf[f[0]]
        if 'attrs' in fmt.fields and g[5] != f[5]:
            out.append(Fail('attributes', {'feature': f[0], 'source': repr(f[5])[:150], 'read': repr(g[5])[:150]}))
            break
    # constraints
    if len(ob[1]) != len(model[1]):
        out.append(Fail('constraint-count', {'source': len(model[1]), 'read': len(ob[1])}))
        return
    if 'ctc-names' in fmt.fields and [n for n, _t in ob[1]] != [n for n, _t in model[1]]:
        out.append(Fail('constraint-names', {'source': [n for n, _t in model[1]], 'read': [n for n, _t in ob[1]]}))
    pairs = list(zip(model[1], ob[1]))
    if 'ctc-by-name' in fmt.fields:
        byname = dict(ob[1])
        pairs = [((n, t), (n, byname.get(n))) for n, t in model[1]]
    for (n, t), (_n2, t2) in pairs:
        if 'ctc-exact' in fmt.fields and t2 != t:
            out.append(Fail('constraint-not-identical', {'source': sh.tree_str(t), 'read': sh.tree_str(t2) if t2 is not None else None}))
            break
        if t2 is None or not ctc_equivalent(t, t2):
            out.append(Fail('constraint-not-equivalent', {'source': sh.tree_str(t), 'read': sh.tree_str(t2) if t2 is not None else None}))
            break


def canon_order(model):
    def rec(f):
        return (f[0], tuple((a, b, tuple(rec(k) for k in kids)) for (a, b, kids) in f[1]))
    return rec(model[0])


def fully_decorated(fields, values=(7, 'txt', True, 2.5, [1, 'a'], {'k': 1})):
    """Carriers of <= 3 features on which EVERY feature carries every decoration the format has a
    notation for at once (abstract flag, type, feature cardinality, two attributes), in every
    combination of which decorations are switched on."""
    out = []
    for m in sp.structures_upto(3):
        for mask in range(1, 16):
            def deco(f, idx=[0]):
                idx[0] += 1
                i = idx[0]
                abstract = bool(mask & 1) and 'abstract' in fields
                ftype = FTYPES[i % 3] if (mask & 2) and 'ftype' in fields else 'Boolean'
                fcard = FCARDS[i % len(FCARDS)] if (mask & 4) and 'fcard' in fields else (1, 1)
                attrs = ((('a%d' % i, sh.freeze(values[i % len(values)])), ('b', sh.freeze(values[(i + 1) % len(values)])))
                         if (mask & 8) and 'attrs' in fields else ())
                return (f[0], tuple((a, b, tuple(deco(k) for k in kids)) for (a, b, kids) in f[1]), abstract, ftype, tuple(fcard), attrs)
            mm = (deco(m[0]), ())
            if mm not in out and mm != m:
                out.append(mm)
    return out


def align_models(tier):
    """Documents longer than the usual I/O buffer sizes whose names consist of 2-, 3- and 4-byte
    UTF-8 characters, shifted byte by byte (64 root-name lengths): for every buffer boundary some
    shift puts a multi-byte character across it.  Flat models (every child optional), expressible in
    every format."""
    F, R, M = sh.F, sh.R, sh.M
    sizes = (160,) if tier == 'quick' else (160, 330, 700, 2800)
    heads = ('\u00e9', '\u65e5', '\U0001f642', '\u00fc\u672c')
    out = []
    for n in sizes:
        for k in range(64):
            kids = [R(0, 1, [F('%s%d%s' % (heads[i % 4], i, heads[(i + 1) % 4]))]) for i in range(n)]
            out.append(M(F('R' + 'x' * k, kids)))
    return out


def collision_models():
    """Models whose distinct names collide under common normalisations (letter case, Unicode
    composition, surrounding blanks, quotes): every pair must stay two features."""
    F, R, M = sh.F, sh.R, sh.M
    pairs = [('Caf\u00e9', 'Cafe\u0301'), ('Wifi', 'WIFI'), ('ab', ' ab'), ('ab', 'ab '), ('a b', 'a  b'), ('\u212b', '\u00c5'),
             ('x1', 'x\u0661'), ('ab', '"ab"'), ('a_b', 'a-b'), ('Data Base', 'DataBase'), ('GPS', 'gps'),
             ('Gr\u00f6\u00dfe', 'Gr\u00f6sse'), ('\u039f\u03b4\u03cc\u03c2', '\u039f\u03b4\u03cc\u03c3'), ('Engine', 'engine'), ('Cpu', 'CPU')]
    out = []
    ctcs = lambda a, b: [('c1', ('REQUIRES', a, b)), ('c2', ('EXCLUDES', b, 'Dc')), ('c3', ('IMPLIES', a, 'Bb')), ('c4', ('IMPLIES', b, 'Bb')),  # noqa: E731
                         ('c5', ('IMPLIES', a, 'Bb'))]
    for a, b in pairs:
        # both optional, one with a mandatory and one with an optional child
        out.append(M(F('Fa', [R(0, 1, [F(a, [R(1, 1, [F('Ca')])])]), R(0, 1, [F(b, [R(0, 1, [F('Cb')])])]), R(0, 1, [F('Bb')]), R(0, 1, [F('Dc')])]),
                     ctcs(a, b)))
    for a, b in pairs:
        # siblings held by relations of different kinds, both with optional children (two variation points)
        out.append(M(F('Fa', [R(1, 1, [F(a, [R(0, 1, [F('Ca')])])]), R(0, 1, [F(b, [R(0, 1, [F('Cb')])])]), R(0, 1, [F('Bb')]), R(0, 1, [F('Dc')])]),
                     ctcs(a, b)[2:]))
        # both always selected, both with always-selected descendants
        out.append(M(F('Fa', [R(1, 1, [F(a, [R(1, 1, [F('Ca')])])]), R(1, 1, [F(b, [R(1, 1, [F('Cb', [R(2, 2, [F('Cc'), F('Cd')])])])])]), R(0, 1, [F('Bb')])])))
        # members of one group
        out.append(M(F('Fa', [R(1, 2, [F(a), F(b), F('Bb')]), R(1, 1, [F('Dc')])]), [('c1', ('IMPLIES', a, 'Bb'))]))
        out.append(M(F('Fa', [R(1, 1, [F('Gp', [R(1, 1, [F(a), F(b), F('Bb')])])]), R(0, 1, [F('Dc')])]), [('c1', ('IMPLIES', a, 'Dc'))]))
    return out
