"""Helpers shared by the property modules."""
from __future__ import annotations

import functools

from .. import build as bd
from .. import engine
from .. import sem
from .. import shadow as sh
from .. import space as sp
from ..engine import Fail


def built(model, route=None):
    """Build the real model for a shadow and validate the trace against the implementation:
    observe(build(shadow)) must equal the shadow and the identity-level tree invariants
    must hold.  Returns (fm, fails)."""
    fm = bd.build(model, route)
    engine.tick(sh.size(model) + len(sh.relations(model)) + len(model[1]))
    fails = []
    if bd.is_poisoned(model):
        return fm, fails       # ill-formed on purpose: nothing to conform to
    try:
        ob = bd.observe(fm)
        probs = bd.wellformed(fm)
    except Exception as exc:  # noqa: BLE001
        return fm, [Fail('build-conformance', 'observation raised %s: %s' % (type(exc).__name__, exc))]
    if not sh.deep_equal(ob, model):
        fails.append(Fail('build-conformance', {'expected': sh.model_str(model), 'observed': _safe_str(ob)}))
    elif probs:
        fails.append(Fail('build-conformance', {'problems': probs[:5]}))
    else:
        engine.validated()
    return fm, fails


def bare_name_write(writer_cls, fm, ext, expect):
    """Write to a bare relative file name (and one with a blank and a non-ASCII character) in a
    scratch working directory: same returned text, file written.  Returns a Fail or None."""
    import os
    import shutil
    base = engine.tmppath('cwd_' + ext.replace('.', '_'))
    os.makedirs(base, exist_ok=True)
    old = os.getcwd()
    try:
        os.chdir(base)
        for name in ('model.' + ext, 'my m\u00f6del.' + ext, 'longer before.' + ext):
            try:
                if name.startswith('longer'):
                    with open(name, 'wb') as fh:          # the destination already holds a longer document
                        raw = expect if isinstance(expect, bytes) else expect.encode('utf8')
                        fh.write(raw + b'\n' + raw[:max(1, len(raw) // 2)] + b'\nleft over\n')
                ret = writer_cls(name, fm).transform()
                data = open(name, 'rb').read()
            except Exception as exc:  # noqa: BLE001
                return Fail('relative-destination:raises:%s' % type(exc).__name__, {'destination': name, 'msg': str(exc)[:200]})
            engine.tick()
            if ret != expect or (data if isinstance(ret, bytes) else data.decode('utf8', 'replace')) != ret:
                return Fail('relative-destination:different-text', {'destination': name})
    finally:
        os.chdir(old)
        shutil.rmtree(base, ignore_errors=True)
    return None


class ModelMutatedByLibrary(Exception):
    """The model object no longer has the content it was built with although only library calls
    that must not modify it were made (reported as a violation, never a machinery error)."""


def checked_edit(fm, edit, model, em, what):
    """Apply an in-place edit of the harness to a real model whose expected content is `model`."""
    if bd.observe(fm) != model:
        raise ModelMutatedByLibrary('before the edit "%s" the model was %s instead of %s' % (what, _safe_str(bd.observe(fm)), sh.model_str(model)))
    edit(fm)
    if bd.observe(fm) != em:
        raise AssertionError('in-place edit did not give the expected model: %s' % what)


def _safe_str(ob):
    try:
        return sh.model_str(ob)
    except Exception:  # noqa: BLE001
        return repr(ob)[:500]


def describe_model_case(case):
    kind = 'S' if (case[0] in ('SK', 'T', 'K', 'D') and is_plain(case[1])) else case[0]
    s = '%s:%s' % (kind, sh.model_str(case[1]))
    if len(case) > 2 and case[2] not in ((), None):
        s += ' | %r' % (case[2],)
    return s


def reduce_model_case(case):
    for m in sh.reductions(case[1], sp.NAME_POOL):
        kind = 'S' if (case[0] in ('SK', 'T', 'K', 'D') and is_plain(m)) else case[0]
        yield (kind, m) + tuple(case[2:])


def is_plain(m):
    return not m[1] and all(f[2] is False and f[3] == 'Boolean' and tuple(f[4]) == (1, 1) and not f[5]
                            for f in sh.features(m))


def has_group_or_ctc(model):
    return bool(model[1]) or any(len(k) > 1 for (_p, _a, _b, k) in sh.relations(model))


# --------------------------------------------------------------------------- constraint sets

XYZ = ('x', 'y', 'z')


@functools.lru_cache(maxsize=None)
def k1(names=XYZ):
    return tuple(sp.trees(1, list(names)))


@functools.lru_cache(maxsize=None)
def k2_subset(names=XYZ):
    """Deterministic subset of K_2 that contains every operator at the root over every
    ordered pair of (operator or leaf) child shapes, and every operator under NOT."""
    ops = sh.BINARY_LOGICAL
    x, y, z = names
    out = []
    seen = set()

    def add(t):
        if t not in seen:
            seen.add(t)
            out.append(t)
    for op in ops:
        add(('NOT', (op, x, y), None))
        add(('NOT', (op, y, z), None))
    add(('NOT', ('NOT', x, None), None))
    for op in ops:
        for op2 in ops:
            add((op, (op2, x, y), z))
            add((op, x, (op2, y, z)))
        add((op, ('NOT', x, None), y))
        add((op, x, ('NOT', y, None)))
        add((op, ('NOT', x, None), ('NOT', y, None)))
    for op in ops:
        add((op, (op, x, y), (op, y, z)))
    return tuple(out)


@functools.lru_cache(maxsize=None)
def dag_trees(names=XYZ):
    """Logical trees (NOT AND OR IMPLIES EQUIVALENCE only: expressible in every format) in which an
    operator sub-tree occurs twice; built with shared Node objects by the XD driver."""
    x, y, z = names
    subs = [('NOT', x, None), ('OR', x, y), ('AND', x, y), ('IMPLIES', x, y)]
    out = []
    for sub in subs:
        for op in ('AND', 'OR', 'IMPLIES', 'EQUIVALENCE'):
            out.append((op, sub, sub))
            out.append((op, ('OR', sub, z), sub))
            out.append((op, sub, ('AND', z, sub)))
            out.append(('NOT', (op, sub, sub), None))
    out.append(('AND', ('OR', x, ('NOT', z, None)), ('OR', y, ('NOT', z, None))))
    out.append(('OR', ('AND', ('NOT', x, None), ('NOT', z, None)), ('AND', y, ('NOT', z, None))))
    return tuple(out)


def map_names(tree, mapping):
    if tree is None:
        return None
    if isinstance(tree, tuple):
        return (tree[0], map_names(tree[1], mapping), map_names(tree[2], mapping))
    if isinstance(tree, str) and tree in mapping:
        return mapping[tree]
    return tree


def with_ctc(model, tree, name='c1', vars_=XYZ):
    """Attach `tree` (over x,y,z) to `model`, mapping variables onto the model's features
    (root excluded when there are enough other features; last features first)."""
    nm = sh.names(model)
    non_root = nm[1:] if len(nm) > 1 else nm
    pickfrom = list(reversed(non_root)) if len(non_root) >= 2 else list(reversed(nm))
    used = sorted(set(sh.tree_names(tree)), key=vars_.index)
    mapping = {}
    for i, v in enumerate(used):
        mapping[v] = pickfrom[i % len(pickfrom)]
    return (model[0], model[1] + ((name, map_names(tree, mapping)),))


# --------------------------------------------------------------------------- arithmetic alphabet

@functools.lru_cache(maxsize=None)
def arith_trees():
    """Comparison / arithmetic / aggregate trees (always type-correct in UVL's sense)."""
    nums = ['x.att', 3, 2.5, 'y.att']
    out = []
    for cmp_ in sh.COMPARISON:
        out.append((cmp_, 'x.att', 3))
        out.append((cmp_, 'x.att', 2.5))
        out.append((cmp_, 'x.att', 'y.att'))
    out.append(('EQUALS', 'x.name', "'txt'"))
    out.append(('NOT_EQUALS', 'x.name', "'txt'"))
    for op in sh.ARITH:
        out.append(('EQUALS', (op, 'x.att', 3), 'y.att'))
        out.append(('LOWER', 'x.att', (op, 'y.att', 2.5)))
        for op2 in sh.ARITH:
            out.append(('GREATER', (op, (op2, 'x.att', 'y.att'), 3), 7))
            out.append(('LOWER_EQUALS', (op, 'x.att', (op2, 'y.att', 3)), 7))
    for agg in ('SUM', 'AVG'):
        out.append(('GREATER', (agg, 'att', 'x'), 3))
        out.append(('LOWER', 2.5, (agg, 'att', 'y')))
        out.append(('EQUALS', ('ADD', (agg, 'att', 'x'), 3), 10))
    # mixed logical + arithmetic
    out.append(('AND', 'x', ('GREATER', 'x.att', 3)))
    out.append(('IMPLIES', 'x', ('EQUALS', ('SUM', 'att', 'x'), 3)))
    out.append(('NOT', ('LOWER', 'x.att', 3), None))
    out.append(('AND', ('GREATER', 'x.att', 3), ('OR', 'x', 'y')))
    out.append(('AND', ('OR', 'x', ('AND', 'y', 'z')), ('LOWER_EQUALS', ('SUM', 'att', 'x'), 100)))
    out.append(('NOT', ('IMPLIES', ('GREATER', 'x.att', 3), ('NOT', 'y', None)), None))
    out.append(('AND', ('AND', ('GREATER', 'x.att', 3), 'x'), ('IMPLIES', 'y', ('AND', 'x', 'z'))))
    assert nums
    return tuple(out)


@functools.lru_cache(maxsize=None)
def onearg_aggregate_trees():
    return (('EQUALS', ('LEN', 'x', None), 3), ('GREATER', ('FLOOR', 'x.att', None), 3),
            ('LOWER', ('CEIL', 'x.att', None), 3), ('GREATER', ('SUM', 'att', None), 3),
            ('GREATER', ('AVG', 'att', None), 3))


CARRIER4 = sh.M(sh.F('Fa', [sh.R(0, 1, [sh.F('Bb')]), sh.R(0, 1, [sh.F('Dc')]), sh.R(0, 1, [sh.F('Ad')])]))
CARRIER_MAP = {'x': 'Bb', 'y': 'Dc', 'z': 'Ad', 'x.att': 'Bb.att', 'y.att': 'Dc.att', 'x.name': 'Bb.name'}


def on_carrier(trees, carrier=None):
    """Carrier model with the given constraint trees (over x,y,z) mapped onto its features."""
    carrier = CARRIER4 if carrier is None else carrier
    return (carrier[0], tuple(('c%d' % (i + 1), map_names(t, CARRIER_MAP)) for i, t in enumerate(trees)))
