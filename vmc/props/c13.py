"""C13 - configuration estimate: exact without constraints, upper bound with."""
from __future__ import annotations

from flamapy.metamodels.fm_metamodel.operations import FMEstimatedConfigurationsNumber

from .. import build as bd
from .. import engine, sem
from .. import shadow as sh
from ..engine import Fail
from . import common as cm
from . import opscfg

ID = 'C13'
describe_base, reduce, nontrivial = opscfg.describe, opscfg.reduce, opscfg.nontrivial
outcome_big = 'big'
GROUPS = {'mutex': ((0, 1), 3), 'optional-leaf': (None, 2), 'alternative': ((1, 1), 2), 'or': ((1, 2), 3), 'card02': ((0, 2), 4)}


def cases(tier, seed):
    yield from opscfg.cases(tier, seed)
    # chains around and beyond the interpreter's recursion limit, with a group every 100 levels.  Running
    # out of stack (RecursionError) is a resource failure the reference model does not define; a value
    # that is returned has to be the exact count.
    for n in (300, 900, 1500, 2500):
        for link in ((1, 1), (0, 1)):
            for g in GROUPS:
                yield ('DC', n, link, g)
    # one wide group of leaves ([a..b] over more than 64 / 128 / 256 children) and a root with thousands of
    # optional leaves (a count of several thousand digits), without and with one requires constraint
    for n in (65, 66, 129, 257):
        for (a, b) in ((0, 2), (1, 3), (2, n - 1), (n // 2, n // 2), (0, n), (n, n)):
            yield ('WIDE', 'group', n, a, b, False)
    for n in (1000, 15000):
        yield ('WIDE', 'optional', n, 0, 1, False)
        yield ('WIDE', 'optional', n, 0, 1, True)
    yield ('WIDE', 'group', 129, 1, 3, True)


def describe(case):
    if case[0] == 'WIDE':
        return 'WIDE:%s, %d leaves, [%d..%d]%s' % (case[1], case[2], case[3], case[4], ', L0 requires L1' if case[5] else '')
    if case[0] == 'DC':
        return 'DC:chain of %d levels linked by %s with a %s every 100 levels' % (case[1], list(case[2]), case[3])
    return describe_base(case)


def _wide(case):
    import math
    from flamapy.metamodels.fm_metamodel.models import Feature, FeatureModel, Relation
    _k, shape, n, a, b, with_ctc = case
    root = Feature('Fa', [])
    leaves = [Feature('L%d' % i, []) for i in range(n)]
    if shape == 'group':
        root.add_relation(Relation(root, leaves, a, b))
        tree = sum(math.comb(n, k) for k in range(a, b + 1))
        # selections with L0 and without L1 are excluded by the constraint
        excluded = sum(math.comb(n - 2, k - 1) for k in range(max(a, 1), b + 1) if 0 <= k - 1 <= n - 2)
    else:
        for leaf in leaves:
            root.add_relation(Relation(root, [leaf], 0, 1))
        tree = 2 ** n
        excluded = 2 ** (n - 2)
    ctcs = [bd.constraint('c1', ('REQUIRES', 'L0', 'L1'))] if with_ctc else []
    fm = FeatureModel(root, ctcs)
    engine.tick(n)
    try:
        res = FMEstimatedConfigurationsNumber().execute(fm).get_result()
    except Exception as exc:  # noqa: BLE001
        return [Fail('raises:%s' % type(exc).__name__, str(exc)[:120])]
    if isinstance(res, bool) or not isinstance(res, int):
        return [Fail('result-not-int', type(res).__name__)]
    if (not with_ctc and res != tree) or (with_ctc and res < tree - excluded):
        return [Fail('estimate', {'estimate (digits)': len(str(res)) if res > 10 ** 60 else res, 'exact (digits)': len(str(tree)) if tree > 10 ** 60 else tree,
                                  'difference': str(res - (tree if not with_ctc else tree - excluded))[:40]})]
    engine.validated()
    return []


def _deep_chain(case):
    from flamapy.metamodels.fm_metamodel.models import Feature, FeatureModel, Relation
    _k, n, link, g = case
    gcard, factor = GROUPS[g]
    feats = [Feature('N%d' % i, []) for i in range(n)]
    for i in range(n - 1):
        feats[i].add_relation(Relation(feats[i], [feats[i + 1]], link[0], link[1]))
        if i % 100 == 50:
            if gcard is None:
                feats[i].add_relation(Relation(feats[i], [Feature('L%d' % i, [])], 0, 1))
            else:
                feats[i].add_relation(Relation(feats[i], [Feature('G%da' % i, []), Feature('G%db' % i, [])], gcard[0], gcard[1]))
    fm = FeatureModel(feats[0], [])
    engine.tick(n)
    exact = 1
    for i in range(n - 2, -1, -1):
        exact = exact if link == (1, 1) else exact + 1
        if i % 100 == 50:
            exact *= factor
    try:
        res = FMEstimatedConfigurationsNumber().execute(fm).get_result()
    except RecursionError:
        return []
    except Exception as exc:  # noqa: BLE001
        return [Fail('raises:%s' % type(exc).__name__, 'chain of %d levels' % n)]
    if isinstance(res, bool) or not isinstance(res, int) or res != exact:
        return [Fail('estimate', {'estimate': str(res)[:60], 'exact': str(exact)[:60]})]
    engine.validated()
    return []


def plan(tier):
    return opscfg.plan(tier, 'estimate == brute-force count (no constraints), >= count (with constraints)')


def selftest():
    sem.selftest()


def judge(res, model):
    if sh.size(model) > 16:
        exact_tree = sem.count_closed_form(model)
        if isinstance(res, bool) or not isinstance(res, int) or res != exact_tree:
            return [Fail('estimate', {'estimate': str(res)[:40], 'exact': str(exact_tree)[:40]})]
        return []
    tcs = sem.tree_configs_cached(model)
    exact_tree = len(tcs)
    if exact_tree != sem.count_closed_form(model):
        raise AssertionError('reference counters disagree on %s' % (model,))
    if isinstance(res, bool) or not isinstance(res, int):
        return [Fail('result-not-int', repr(res))]
    if not model[1]:
        if res != exact_tree:
            return [Fail('estimate', {'estimate': res, 'exact': exact_tree})]
    else:
        exact = sum(1 for s in tcs if all(sem.ev(t, s) for _n, t in model[1]))
        if res < exact:
            return [Fail('estimate', {'estimate': res, 'exact': exact})]
    return []


def check(case):
    if case[0] == 'DC':
        return _deep_chain(case)
    if case[0] == 'WIDE':
        return _wide(case)
    model = opscfg.resolve(case)
    if case[0] == 'SE':
        return opscfg.edit_history(model, FMEstimatedConfigurationsNumber, judge)
    if case[0] == 'ST':
        return opscfg.overlap(case[1], case[2], FMEstimatedConfigurationsNumber, judge)
    if case[0] == 'SF':
        return opscfg.failure_history(model, FMEstimatedConfigurationsNumber, judge)
    if case[0] == 'SO':
        return opscfg.result_ownership(model, FMEstimatedConfigurationsNumber, judge)
    fm, fails = cm.built(model)
    if fails:
        return fails
    try:
        res = FMEstimatedConfigurationsNumber().execute(fm).get_result()
        engine.note(res)
        engine.tick()
    except Exception as exc:  # noqa: BLE001
        return [Fail('raises:%s' % type(exc).__name__, str(exc))]
    return judge(res, model)


def outcome(case):
    if case[0] == 'WIDE':
        return 'wide'
    if case[0] == 'DC':
        return 'deep-chain'
    if case[0] == 'B':
        return 'big'
    if sh.size(case[1]) > 16:
        return 'big'
    return 'tree=%d' % len(sem.tree_configs_cached(case[1]))
