"""C13 - configuration estimate: exact without constraints, upper bound with."""
from __future__ import annotations

from flamapy.metamodels.fm_metamodel.operations import FMEstimatedConfigurationsNumber

from .. import engine, sem
from .. import shadow as sh
from ..engine import Fail
from . import common as cm
from . import opscfg

ID = 'C13'
cases, describe, reduce, nontrivial = opscfg.cases, opscfg.describe, opscfg.reduce, opscfg.nontrivial
outcome_big = 'big'


def plan(tier):
    return opscfg.plan(tier, 'estimate == brute-force count (no constraints), >= count (with constraints)')


def selftest():
    sem.selftest()


def judge(res, model):
    if sh.size(model) > 16:
        exact_tree = sem.count_closed_form(model)
        if isinstance(res, bool) or not isinstance(res, int) or res != exact_tree:
            return [Fail('estimate', {'estimate': str(res)[:40], 'exact': str(exact_tree)[:40]})]
        return []
    tcs = sem.tree_configs_cached(model)
    exact_tree = len(tcs)
    if exact_tree != sem.count_closed_form(model):
        raise AssertionError('reference counters disagree on %s' % (model,))
    if isinstance(res, bool) or not isinstance(res, int):
        return [Fail('result-not-int', repr(res))]
    if not model[1]:
        if res != exact_tree:
            return [Fail('estimate', {'estimate': res, 'exact': exact_tree})]
    else:
        exact = sum(1 for s in tcs if all(sem.ev(t, s) for _n, t in model[1]))
        if res < exact:
            return [Fail('estimate', {'estimate': res, 'exact': exact})]
    return []


def check(case):
    model = opscfg.resolve(case)
    if case[0] == 'SE':
        return opscfg.edit_history(model, FMEstimatedConfigurationsNumber, judge)
    fm, fails = cm.built(model)
    if fails:
        return fails
    try:
        res = FMEstimatedConfigurationsNumber().execute(fm).get_result()
        engine.tick()
    except Exception as exc:  # noqa: BLE001
        return [Fail('raises:%s' % type(exc).__name__, str(exc))]
    return judge(res, model)


def outcome(case):
    if case[0] == 'B':
        return 'big'
    if sh.size(case[1]) > 16:
        return 'big'
    return 'tree=%d' % len(sem.tree_configs_cached(case[1]))
