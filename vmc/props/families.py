"""Deterministic parametric families beyond the exhaustive bounds (in place of 'random larger
models'): wide groups with two-digit cardinalities, long chains, combs, binary trees, parents
with many relations, four levels of nested groups; deep constraint trees."""
from __future__ import annotations

import functools

from .. import shadow as sh

F, R, M = sh.F, sh.R, sh.M


def wide(k, card, prefix='W'):
    return M(F('Rt', [R(card[0], card[1], [F('%s%d' % (prefix, i)) for i in range(1, k + 1)])]))


def chain(n, card=(1, 1)):
    f = F('N%d' % (n - 1))
    for i in range(n - 2, -1, -1):
        f = F('N%d' % i, [R(card[0], card[1], [f])])
    return M(f)


def comb(n):
    f = F('L%d' % n)
    for i in range(n - 1, -1, -1):
        f = F('S%d' % i, [R(1, 1, [f]), R(0, 1, [F('T%d' % i)])])
    return M(f)


def binary(depth, card=(1, 2)):
    def rec(d, name):
        if d == 0:
            return F(name)
        return F(name, [R(card[0], card[1], [rec(d - 1, name + 'a'), rec(d - 1, name + 'b')])])
    return M(rec(depth, 'B'))


def many_relations(k):
    rels = []
    for i in range(k):
        card = [(1, 1), (0, 1)][i % 2]
        rels.append(R(card[0], card[1], [F('P%d' % i)]))
    rels.append(R(1, 2, [F('G1'), F('G2')]))
    rels.append(R(1, 1, [F('H1'), F('H2'), F('H3')]))
    return M(F('Rt', rels))


def nested_groups():
    lvl3 = F('C1', [R(1, 1, [F('D1'), F('D2')])])
    lvl2 = F('B1', [R(1, 2, [lvl3, F('C2')])])
    return M(F('A0', [R(1, 1, [lvl2, F('B2', [R(0, 1, [F('E1')]), R(1, 1, [F('E2')])])])]))


@functools.lru_cache(maxsize=None)
def models(max_features=13):
    out = []
    for k in (5, 7, 10, 12):
        for card in ((1, 1), (1, k), (0, 1), (2, k - 1), (k, k), (0, k), (k - 2, k)):
            out.append(wide(k, card))
    out.append(wide(12, (10, 11)))
    out.append(wide(12, (10, 12)))
    out.append(wide(11, (1, 10)))
    out.append(wide(12, (2, 10)))
    out.append(wide(10, (9, 10)))
    out.append(wide(12, (3, 12)))
    out.append(M(F('Rt', [R(2, 10, [F('W%d' % i) for i in range(1, 13)]), R(1, 1, [F('Q1')]), R(10, 12, [F('V%d' % i) for i in range(1, 13)])])))
    for n in (8, 12):
        out.append(chain(n))
        out.append(chain(n, (0, 1)))
    out.append(comb(5))
    out.append(binary(2))
    out.append(binary(3))
    out.append(binary(3, (1, 1)))
    out.append(many_relations(5))
    two = lambda nm: F(nm, [R(0, 1, [F(nm + 'o')])])          # noqa: E731  (a child with 2 configurations)
    for card in ((1, 2), (0, 2), (2, 3), (2, 2)):
        out.append(M(F('Rt', [R(card[0], card[1], [F('A1'), F('A2'), two('A3')]), R(card[0], card[1], [F('B1'), two('B2'), two('B3')])])))
    out.append(nested_groups())
    return tuple(m for m in out if sh.size(m) <= max_features)


BIG_SPECS = (('wide', 300, (300, 300)), ('wide', 257, (257, 257)), ('wide', 300, (1, 1)), ('wide', 300, (1, 300)),
             ('wide', 1000, (0, 1)), ('wide', 260, (2, 259)), ('chain', 600, (1, 1)), ('chain', 600, (0, 1)), ('comb', 250, None),
             ('fullgroup-with-subchain', 258, None), ('pow-group', 16, (2, 4)), ('pow-group', 14, (1, 3)), ('pow-group', 18, (3, 4)),
             ('many-relations', 300, (1, 1)), ('many-relations', 300, (0, 1)))


@functools.lru_cache(maxsize=32)
def big_build(spec):
    """Models far beyond brute force (judged by closed forms / structural references only); passed
    between processes as small specs because deep tuples cannot be pickled."""
    kind, n, card = spec
    if kind == 'wide':
        return wide(n, card)
    if kind == 'chain':
        return chain(n, card)
    if kind == 'comb':
        return comb(n)
    if kind == 'fullgroup-with-subchain':
        root = wide(n, (n, n))[0]
        a, b, kids = root[1][0]
        kids = (F(kids[0][0], [R(1, 1, [F('Sub1', [R(1, 1, [F('Sub2')])])])]),) + kids[1:]
        return M(F(root[0], [R(a, b, kids)]))
    if kind == 'many-relations':
        # n single-child relations under one feature plus an alternative, an or- and a [2..2] group among them
        rels = [R(card[0], card[1], [F('S%d' % i)]) for i in range(n)]
        rels.insert(n // 2, R(1, 1, [F('Al1'), F('Al2'), F('Al3')]))
        rels.insert(3, R(1, 2, [F('Or1'), F('Or2')]))
        rels.append(R(2, 2, [F('Fg1'), F('Fg2', [R(1, 1, [F('Fg2a')])])]))
        return M(F('Rt', rels))
    if kind == 'pow-group':
        # [a..b] over 4 children, each an or-group of n leaves: every child has 2**n - 1 configurations
        kids = [F('G%d' % g, [R(1, n, [F('G%dL%d' % (g, i)) for i in range(n)])]) for g in range(4)]
        return M(F('Rt', [R(card[0], card[1], kids)]))
    raise ValueError(spec)


@functools.lru_cache(maxsize=None)
def long_chains(names=('x', 'y', 'z'), n=300):
    """Left-deep chains of one connective with n operands (every seventh one negated): more than 256
    occurrences of the same operator in one constraint."""
    out = []
    for op in ('OR', 'AND'):
        t = names[0]
        for i in range(1, n):
            t = (op, t, names[i % 3] if i % 7 else ('NOT', names[i % 3], None))
        out.append(t)
    return out


def deep_trees(names=('x', 'y', 'z')):
    """Constraint trees of depth 3 and 4: same-operator chains (left and right nested), mixed
    alternations and negations at every level."""
    x, y, z = names
    out = []
    ops = sh.BINARY_LOGICAL
    for op in ops:
        out.append((op, x, (op, y, (op, z, x))))
        out.append((op, (op, (op, x, y), z), x))
        out.append((op, x, (op, y, (op, z, (op, x, y)))))
        out.append(('NOT', (op, ('NOT', (op, x, y), None), ('NOT', z, None)), None))
    for a in ops:
        for b in ops:
            if a != b:
                out.append((a, (b, x, (a, y, z)), (b, (a, x, z), y)))
    out.append(('NOT', ('NOT', ('NOT', x, None), None), None))
    nn = lambda t: ('NOT', ('NOT', t, None), None)  # noqa: E731
    for op in ('EXCLUDES', 'REQUIRES', 'IMPLIES', 'OR', 'AND', 'EQUIVALENCE', 'XOR'):
        out += [(op, x, nn(y)), (op, nn(x), y), (op, x, ('NOT', nn(y), None)), (op, nn(x), nn(y)), (op, x, nn(('AND', y, z)))]
    # the documented simple forms with one operand replaced by a compound expression
    comp = [('AND', y, z), ('OR', y, z), ('NOT', y, None), ('IMPLIES', y, z), ('REQUIRES', y, z), ('EXCLUDES', y, z)]
    for c in comp:
        n = ('NOT', c, None)
        out += [('REQUIRES', x, c), ('REQUIRES', c, x), ('IMPLIES', x, n), ('IMPLIES', c, ('NOT', x, None)), ('REQUIRES', x, n),
                ('EXCLUDES', x, c), ('EXCLUDES', c, x), ('EXCLUDES', x, n), ('OR', ('NOT', x, None), n), ('OR', n, ('NOT', x, None)),
                ('OR', ('NOT', x, None), c), ('OR', c, ('NOT', x, None)), ('OR', n, x), ('OR', x, n), ('OR', n, n)]
    # every depth-3 nesting of and / or (left and right spines)
    import itertools
    for o1, o2, o3 in itertools.product(('AND', 'OR'), repeat=3):
        out.append((o1, (o2, (o3, x, y), z), x))
        out.append((o1, x, (o2, y, (o3, z, x))))
        out.append((o1, (o2, x, (o3, y, z)), y))
    for o1 in ops:
        for o2 in ('AND', 'OR', 'IMPLIES'):
            out.append((o1, (o2, ('NOT', x, None), y), z))
            out.append((o1, z, (o2, ('NOT', x, None), y)))
    # if-then-else shapes (a genuine xor expansion and near misses)
    nx, ny = ('NOT', x, None), ('NOT', y, None)
    out += [('OR', ('AND', x, ny), ('AND', nx, y)), ('OR', ('AND', x, ny), ('AND', nx, z)), ('OR', ('AND', x, ('NOT', z, None)), ('AND', nx, y)),
            ('OR', ('AND', nx, y), ('AND', x, ny)), ('AND', ('OR', x, y), ('OR', nx, ny)), ('AND', ('OR', x, y), ('OR', nx, ('NOT', z, None)))]
    out.append(('AND', ('IMPLIES', ('AND', x, y), z), ('IMPLIES', z, ('AND', x, z))))
    out.append(('AND', ('IMPLIES', ('AND', x, y), z), ('IMPLIES', z, ('AND', x, y))))
    out.append(('AND', ('IMPLIES', ('OR', x, y), ('NOT', z, None)), ('IMPLIES', ('NOT', z, None), ('OR', y, x))))
    out.append(('AND', ('IMPLIES', x, ('AND', y, z)), ('IMPLIES', ('AND', y, x), x)))
    out.append(('AND', ('OR', ('AND', x, y), ('AND', y, z)), ('OR', ('NOT', x, None), ('IMPLIES', z, ('EQUIVALENCE', x, y)))))
    return tuple(out)
