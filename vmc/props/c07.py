"""C07 - FeatureIDE round trip returns the same model, at any number of cycles."""
from __future__ import annotations

from flamapy.metamodels.fm_metamodel.transformations import FeatureIDEReader, FeatureIDEWriter

from .. import sem
from .. import shadow as sh
from .. import space as sp
from . import common as cm
from . import rt

ID = 'C07'
BOUNDS = {'quick': 5, 'thorough': 7}
OPS = tuple(o for o in sh.LOGICAL if o != 'XOR')


class FideFormat(rt.Format):
    name = 'featureide'
    ext = 'xml'
    binary = True
    fields = ('abstract',)

    writer_cls = FeatureIDEWriter
    reader_cls = FeatureIDEReader

    def write(self, fm, path):
        return FeatureIDEWriter(path, fm).transform()

    def read(self, path):
        return FeatureIDEReader(path).transform()


FMT = FideFormat()


def in_fragment(m):
    """Each feature has only single-child (1,1)/(0,1) relations, or exactly one relation that
    is an or-/alternative group."""
    for f in sh.features(m):
        kinds = [sem.kind(a, b, len(k)) for (a, b, k) in f[1]]
        if all(k in ('mandatory', 'optional') for k in kinds):
            continue
        if len(kinds) == 1 and kinds[0] in ('or', 'alternative'):
            continue
        return False
    return True


def _level1():
    devs = [('abstract', None)]
    for _cls, members in rt.NAME_CLASSES.items():
        for n in members:
            devs.append(('name', n))
    return devs


def _level2():
    return [('abstract', None)] + [('name', members[0]) for _cls, members in rt.NAME_CLASSES.items()]


def cases(tier, seed):
    for m in sp.structures_upto(BOUNDS[tier]):
        if in_fragment(m):
            yield ('S', m)
    carriers1 = [m for m in sp.structures_upto(3 if tier == 'quick' else 4) if in_fragment(m)]
    carriers2 = [m for m in sp.structures_upto(2 if tier == 'quick' else 3) if in_fragment(m)]
    seen = set()
    for m in rt.dev_space(carriers1, _level1(), []):
        if m not in seen:
            seen.add(m)
            yield ('D', m)
    for m in rt.dev_space(carriers2, [], _level2()):
        if m not in seen:
            seen.add(m)
            yield ('D', m)
    names = ['x', 'y'] if tier == 'quick' else ['x', 'y', 'z']
    for t in sp.trees(2, names, OPS):
        yield ('K', cm.on_carrier([t]))
    if tier == 'quick':
        for t in cm.k2_subset():
            if 'XOR' not in sh.tree_ops(t):
                yield ('K', cm.on_carrier([t]))
    from . import families
    for m in families.models():
        if in_fragment(m):
            yield ('S', m)
    for m in rt.fully_decorated(FMT.fields):
        if in_fragment(m):
            yield ('D', m)
    for m in rt.align_models(tier):
        yield ('A', m)
    for m in rt.collision_models():
        if in_fragment(m):
            yield ('D', m)
    for t in families.long_chains():
        yield ('K', cm.on_carrier([t]))
    for t in families.deep_trees():
        if 'XOR' not in sh.tree_ops(t):
            yield ('K', cm.on_carrier([t]))
    k1 = [t for t in cm.k1() if 'XOR' not in sh.tree_ops(t)]
    step = 5 if tier == 'quick' else 2
    for t1 in k1[::step]:
        for t2 in k1[::step]:
            yield ('K', cm.on_carrier([t1, t2]))


def plan(tier):
    return {
        'chunk': 150,
        'bounds': 'S<=%d in the FeatureIDE fragment; abstract flag and every name of %d classes at every position of small '
                  'carriers, representatives on pairs; constraint lists of length 0/1/2: all trees depth<=2 over %d names without '
                  'XOR incl. the single literal; 2 cycles' % (BOUNDS[tier], len(rt.NAME_CLASSES), 2 if tier == 'quick' else 3),
        'rule': 'write -> read -> write -> read on every state; names, order-insensitive tree, abstract flags, one-to-one '
                'logical equivalence of constraints, bytes and model fix-point, returned bytes == file; non-trivial = group, '
                'decoration or constraint',
        'assumptions': ['iff may come back as a conjunction of implications (semantic comparison)'],
    }


describe = cm.describe_model_case


def reduce(case):
    for c in cm.reduce_model_case(case):
        if in_fragment(c[1]) and not any('XOR' in sh.tree_ops(t) for _n, t in c[1][1]):
            yield c


def normalize(case):
    return (case[0], sh.normalize_names(case[1], sp.NAME_POOL))


def nontrivial(case):
    return not cm.is_plain(case[1]) or cm.has_group_or_ctc(case[1])


def selftest():
    sem.selftest()


def check(case):
    return rt.roundtrip(FMT, case[1], cycles=2)


def outcome(case):
    return case[0]
