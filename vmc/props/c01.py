"""C01 - UVL round trip returns the same model, at any number of cycles."""
from __future__ import annotations

from flamapy.metamodels.fm_metamodel.transformations import UVLReader, UVLWriter

from .. import sem
from .. import shadow as sh
from .. import space as sp
from . import common as cm
from . import rt

ID = 'C01'
BOUNDS = {'quick': 5, 'thorough': 6}
OPS = tuple(o for o in sh.LOGICAL if o != 'XOR')
# name classes a quoted UVL identifier can carry (no '"', '.', CR/LF)
UVL_NAME_CLASSES = ('digit', 'underscore', 'space', 'punct', 'uvlkw', 'opword', 'nonascii', 'xml', 'ws-edge', 'rare', 'unicode-edge', 'numberlike', 'dashes')


class UVLFormat(rt.Format):
    name = 'uvl'
    ext = 'uvl'
    fields = ('abstract', 'ftype', 'fcard', 'attrs')
    star_ok = True

    writer_cls = UVLWriter
    reuse_stride = 5          # (the generated UVL parser is slow)
    reader_cls = UVLReader

    def write(self, fm, path):
        return UVLWriter(path, fm).transform()

    def read(self, path):
        return UVLReader(path).transform()


FMT = UVLFormat()


def _names():
    out = []
    for cls in UVL_NAME_CLASSES:
        for n in rt.NAME_CLASSES[cls]:
            if '"' not in n and '.' not in n and '\n' not in n and '\r' not in n:
                out.append((cls, n))
    return out


def _values():
    out = []
    for v in rt.ATTR_VALUES:
        if _uvl_value_ok(v):
            out.append(v)
    return out


def _uvl_value_ok(v):
    if isinstance(v, str):
        return v != '' and "'" not in v and '.' not in v and '\n' not in v and '\r' not in v
    if isinstance(v, float):
        return 'e' not in repr(v) and 'inf' not in repr(v) and 'nan' not in repr(v)
    if isinstance(v, list):
        if len(v) == 1 and isinstance(v[0], int) and not isinstance(v[0], bool) and v[0] >= 0:
            return False        # `[3]` is lexed as a cardinality: a vector of one natural number has no UVL notation
        return all(x is not None and _uvl_value_ok(x) for x in v)
    if isinstance(v, dict):
        return all(isinstance(k, str) and '"' not in k and '.' not in k and _uvl_value_ok(x) for k, x in v.items())
    return True


def _level1():
    devs = [('abstract', None)]
    devs += [('name', n) for _c, n in _names()]
    devs += [('ftype', t) for t in rt.FTYPES]
    devs += [('fcard', c) for c in rt.FCARDS]
    for i, v in enumerate(_values()):
        devs.append(('attr', ('att%d' % i, v)))
    devs += [('attr', ('a b', 1)), ('attr', ('ünï', 'x')), ('attr', ('or', True)), ('attr', ('abstractx', 2))]
    # (an attribute spelled exactly `abstract` is UVL's abstract marker: not expressible as an attribute)
    devs += [('attr', (n, v)) for n, v in rt.ATTR_NAME_DEVS if n != 'abstract' and _uvl_value_ok(v)]
    return devs


def _level2():
    seen = set()
    devs = [('abstract', None)]
    for c, n in _names():
        if c not in seen:
            seen.add(c)
            devs.append(('name', n))
    devs += [('ftype', 'Integer'), ('ftype', 'String'), ('fcard', (0, 1)), ('fcard', (1, -1))]
    for n, v in (('att', 7), ('att', 'hello world'), ('flag', True), ('none', None), ('lst', [1, 'a']),
                 ('map', {'k': {'j': 'q'}}), ('r', 2.5)):
        devs.append(('attr', (n, v)))
    return devs


def in_fragment(m):
    return True


def cases(tier, seed):
    n = BOUNDS[tier]
    for m in sp.structures_upto(n, star=(n <= 4)):
        yield ('S', m)
    if n > 4:
        for m in sp.structures_upto(4, star=True):
            if any(b == -1 for (_p, _a, b, _k) in sh.relations(m)):
                yield ('S', m)
    carriers1 = list(sp.structures_upto(3))
    carriers2 = list(sp.structures_upto(2 if tier == 'quick' else 3))
    seen = set()
    for m in rt.dev_space(carriers1 if tier == 'thorough' else carriers1[:12], _level1(), []):
        if m not in seen:
            seen.add(m)
            yield ('D', m)
    for m in rt.dev_space(carriers2, [], _level2()):
        if m not in seen:
            seen.add(m)
            yield ('D', m)
    for t in sp.trees(1, ['x', 'y', 'z'], OPS):
        yield ('K', cm.on_carrier([t]))
    names = ['x', 'y'] if tier == 'quick' else ['x', 'y', 'z']
    k2 = sp.trees(2, names, OPS)
    for t in (k2 if tier == 'thorough' else k2[::3]):
        yield ('K', cm.on_carrier([t]))
    for t in cm.arith_trees():
        yield ('K', cm.on_carrier([t]))
    from . import families
    for m in families.models():
        if in_fragment(m):
            yield ('S', m)
    for m in rt.fully_decorated(FMT.fields):
        if in_fragment(m):
            yield ('D', m)
    for m in rt.align_models(tier):
        yield ('A', m)
    for m in rt.collision_models():
        if not any('"' in n or '.' in n for n in sh.names(m)):
            yield ('D', m)
    # attribute references whose feature or attribute name needs quoting
    F, R, M = sh.F, sh.R, sh.M
    for fname, aname in (('a b', 'att'), ('Bb', 'unit price'), ('a b', 'unit price'), ('\u00f1u', 'att'), ('or', 'att'), ('Bb', 'or'), ('a-b', 'x y')):
        ref = '%s.%s' % (fname, aname)
        car = F('Fa', [R(0, 1, [F(fname, attrs=[(aname, sh.freeze(3))])]), R(0, 1, [F('Dc', attrs=[('att', sh.freeze(4))])])])
        for t in (('GREATER', ref, 3), ('EQUALS', ('ADD', ref, 'Dc.att'), 7), ('AND', fname, ('LOWER', ('SUM', aname, fname), 10)),
                  ('LOWER_EQUALS', 'Dc.att', ('MUL', ref, 2))):
            yield ('K', M(car, [('c1', t)]))
    for t in families.deep_trees():
        if 'XOR' not in sh.tree_ops(t):
            yield ('K', cm.on_carrier([t]))
    k1 = [t for t in cm.k1() if 'XOR' not in sh.tree_ops(t)]
    step = 7 if tier == 'quick' else 3
    for t1 in k1[::step]:
        for t2 in k1[::step]:
            yield ('K', cm.on_carrier([t1, t2]))


def plan(tier):
    return {
        'chunk': 40,
        'bounds': 'S<=%d incl. [a..*] (star up to 4 features); level 1 = every name of the admitted classes, abstract, 3 types, '
                  '5 feature cardinalities, every UVL attribute value at every position of carriers <=3; level 2 = class '
                  'representatives on pairs of positions of carriers <=%d; constraints K_1^3, %s of K_2, the arithmetic / '
                  'aggregate alphabet, pairs from K_1^3; 2 cycles' % (BOUNDS[tier], 2 if tier == 'quick' else 3,
                                                                     'every third tree' if tier == 'quick' else 'all'),
        'rule': 'write -> read -> write -> read on every state; names, order-insensitive tree ([n..*] may come back as the '
                'number of children), abstract, type, feature cardinality, attributes type-strict, i-th constraint equivalent, '
                'generation fix-points; non-trivial = group, decoration or constraint',
        'assumptions': ['UVL STRING cannot carry \' or . ; exponent floats and one-argument aggregates are outside the fragment'],
    }


describe = cm.describe_model_case


def reduce(case):
    for c in cm.reduce_model_case(case):
        if not any('XOR' in sh.tree_ops(t) for _n, t in c[1][1]):
            yield c


def normalize(case):
    return (case[0], sh.normalize_names(case[1], sp.NAME_POOL))


def nontrivial(case):
    return not cm.is_plain(case[1]) or cm.has_group_or_ctc(case[1])


def selftest():
    sem.selftest()


def check(case):
    return rt.roundtrip(FMT, case[1], cycles=2)


def outcome(case):
    return case[0]
