"""C08 - Glencoe round trip returns the same model, at any number of cycles."""
from __future__ import annotations

from flamapy.metamodels.fm_metamodel.transformations import GlencoeReader, GlencoeWriter

from .. import sem
from .. import shadow as sh
from .. import space as sp
from . import common as cm
from . import rt

ID = 'C08'
BOUNDS = {'quick': 5, 'thorough': 7}


class GlencoeFormat(rt.Format):
    name = 'glencoe'
    ext = 'gfm.json'
    fields = ('ctc-names', 'ctc-by-name')

    writer_cls = GlencoeWriter
    reader_cls = GlencoeReader

    def write(self, fm, path):
        return GlencoeWriter(path, fm).transform()

    def read(self, path):
        return GlencoeReader(path).transform()


FMT = GlencoeFormat()


def in_fragment(m):
    """Per feature: only solitary (mandatory/optional) children, or exactly one group relation
    (alternative, or, mutex, [a,b]) plus any number of mandatory solitary children."""
    for f in sh.features(m):
        kinds = [sem.kind(a, b, len(k)) for (a, b, k) in f[1]]
        if any(k is None for k in kinds):
            return False
        groups = [k for k in kinds if k not in ('mandatory', 'optional')]
        if len(groups) > 1:
            return False
        if groups and 'optional' in kinds:
            return False
    return True


def _level1():
    devs = []
    for _cls, members in rt.NAME_CLASSES.items():
        for n in members:
            devs.append(('name', n))
    return devs


def _level2():
    return [('name', members[0]) for _cls, members in rt.NAME_CLASSES.items()]


def cases(tier, seed):
    for m in sp.structures_upto(BOUNDS[tier]):
        if in_fragment(m):
            yield ('S', m)
    carriers1 = [m for m in sp.structures_upto(3 if tier == 'quick' else 4) if in_fragment(m)]
    carriers2 = [m for m in sp.structures_upto(2 if tier == 'quick' else 3) if in_fragment(m)]
    seen = set()
    for m in rt.dev_space(carriers1, _level1(), []):
        if m not in seen:
            seen.add(m)
            yield ('D', m)
    for m in rt.dev_space(carriers2, [], _level2()):
        if m not in seen:
            seen.add(m)
            yield ('D', m)
    names = ['x', 'y'] if tier == 'quick' else ['x', 'y', 'z']
    for t in sp.trees(2, names):
        yield ('K', cm.on_carrier([t]))
    if tier == 'quick':
        for t in cm.k2_subset():
            yield ('K', cm.on_carrier([t]))
    from . import families
    for m in families.models():
        if in_fragment(m):
            yield ('S', m)
    for m in rt.align_models(tier):
        yield ('A', m)
    for m in rt.collision_models():
        if in_fragment(m):
            yield ('D', m)
    for t in families.long_chains():
        yield ('K', cm.on_carrier([t]))
    for t in families.deep_trees():
        if True:
            yield ('K', cm.on_carrier([t]))
    k1 = cm.k1()
    step = 7 if tier == 'quick' else 2
    for t1 in k1[::step]:
        for t2 in k1[::step]:
            yield ('K', cm.on_carrier([t1, t2]))


def plan(tier):
    return {
        'chunk': 150,
        'bounds': 'S<=%d in the Glencoe fragment; every name of %d classes at every position of small carriers (level 1) and '
                  'class representatives on pairs of positions (level 2); all constraint trees depth<=2 over %d names incl. XOR '
                  'and EXCLUDES under distinct names, pairs from K_1^3; 2 cycles' % (BOUNDS[tier], len(rt.NAME_CLASSES), 2 if tier == 'quick' else 3),
        'rule': 'write -> read -> write -> read on every state; names, order-insensitive tree, number of constraints and '
                'name-matched logical equivalence, text and model fix-point; non-trivial = group, special name or constraint',
        'assumptions': ['order-insensitive tree comparison (the writer sorts by name)'],
    }


describe = cm.describe_model_case


def reduce(case):
    for c in cm.reduce_model_case(case):
        if in_fragment(c[1]):
            yield c


def normalize(case):
    return (case[0], sh.normalize_names(case[1], sp.NAME_POOL))


def nontrivial(case):
    return not cm.is_plain(case[1]) or cm.has_group_or_ctc(case[1])


def selftest():
    sem.selftest()


def check(case):
    return rt.roundtrip(FMT, case[1], cycles=2)


def outcome(case):
    return case[0]
