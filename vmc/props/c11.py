"""C11 - Clafer export denotes exactly the model's configurations."""
from __future__ import annotations

import re

from flamapy.metamodels.fm_metamodel.transformations import ClaferWriter

from .. import build as bd
from .. import engine, sem
from .. import shadow as sh
from .. import space as sp
from ..engine import Fail
from ..lang import clafer
from . import common as cm
from . import rt

ID = 'C11'
BOUNDS = {'quick': (6, 4), 'thorough': (7, 5)}
TYPE_OF = {bool: 'boolean', int: 'integer', float: 'double', str: 'string'}


def in_fragment(m):
    """Per feature: only solitary (mandatory/optional) children, or exactly one group relation."""
    for f in sh.features(m):
        kinds = [sem.kind(a, b, len(k)) for (a, b, k) in f[1]]
        if any(k is None for k in kinds):
            return False
        if all(k in ('mandatory', 'optional') for k in kinds):
            continue
        if len(kinds) == 1:
            continue
        return False
    return True


ATTRS = (('cost', 3), ('cost', 7), ('weight', 2.5), ('flag', True), ('label', 'hello'), ('a b', 1), ('ünï', 'x'))
NAMES = ('a b', 'a-b', 'ñu', 'Cafe\u0301', '\u212b', 'x\u2028y', '_', '__', '_a', 'a_')


def _level1():
    # the abstract flag is a property of the feature, not of its configurations: an abstract feature is
    # selected and deselected like any other one, so its clafer has to be instantiable
    return [('attr', a) for a in ATTRS] + [('name', n) for n in NAMES] + [('abstract', None)]


def _level2():
    return [('attr', ATTRS[0]), ('attr', ATTRS[2]), ('attr', ATTRS[3]), ('attr', ATTRS[4]), ('attr', ATTRS[5]), ('name', 'a b'), ('abstract', None)]


def cases(tier, seed):
    n_plain, n_ctc = BOUNDS[tier]
    for m in sp.structures_upto(n_plain):
        if in_fragment(m):
            yield ('S', m)
    ksets = list(cm.k1()) + list(cm.k2_subset())
    for n in range(3, n_ctc + 1):
        for m in sp.structures(n):
            if in_fragment(m):
                for t in ksets:
                    yield ('SK', cm.with_ctc(m, t))
    from . import families
    for m in families.models():
        if in_fragment(m):
            yield ('S', m)
    for t in families.long_chains():
        yield ('SK', cm.on_carrier([t]))
    for t in families.deep_trees():
        yield ('SK', cm.on_carrier([t]))
    # long constraints over names that contain blanks (the break column is moved by the first name's length)
    for k in range(0, 24):
        first = 'P' + 'x' * k + ' q'
        nm = [first, 'Rear camera', 'Lane assist', 'Parking sensors', 'Night vision', 'Head up display']
        car = sh.M(sh.F('Car', [sh.R(0, 1, [sh.F(n)]) for n in nm]))
        a, b, c, d, e, f = nm
        for t in (('AND', ('OR', ('AND', a, b), ('IMPLIES', c, d)), ('OR', ('NOT', ('AND', e, f), None), ('EQUIVALENCE', a, d))),
                  ('IMPLIES', ('AND', ('OR', a, b), ('OR', c, d)), ('OR', ('AND', e, f), ('AND', d, ('NOT', a, None))))):
            yield ('SK', (car[0], (('c1', t),)))
    for m in rt.collision_models():
        if in_fragment(m) and not any('"' in n for n in sh.names(m)):
            yield ('SK', m)
    for t1 in cm.k1()[::5]:
        for t2 in cm.k1()[::5]:
            yield ('SK', cm.on_carrier([t1, t2]))
    carriers1 = [m for m in sp.structures_upto(3) if in_fragment(m)]
    carriers2 = [m for m in sp.structures_upto(2 if tier == 'quick' else 3) if in_fragment(m)]
    seen = set()
    for m in rt.dev_space(carriers1, _level1(), []):
        if m not in seen:
            seen.add(m)
            yield ('D', m)
    for m in rt.dev_space(carriers2, [], _level2()):
        if m not in seen:
            seen.add(m)
            yield ('D', m)


def plan(tier):
    n_plain, n_ctc = BOUNDS[tier]
    return {
        'chunk': 200,
        'bounds': 'S<=%d in the Clafer fragment; S in 3..%d x (K_1^3 + K_2 subset); attributes of bool/int/float/str values and '
                  'names needing quotes at every position of carriers <=3, pairs of representatives' % (n_plain, n_ctc),
        'rule': 'the export is interpreted by an independent interpreter of the emitted Clafer subset over all 2^n selections and '
                'compared with the brute-force configurations of the shadow; declared/used identifiers of features and attributes '
                'must coincide, attribute types must match the values, every operator must be Clafer syntax; non-trivial = group, '
                'attribute or constraint',
        'assumptions': ['Clafer semantics as stated in vmc.lang.clafer (group cardinalities, ? optionality)'],
    }


describe = cm.describe_model_case


def reduce(case):
    for c in cm.reduce_model_case(case):
        if in_fragment(c[1]):
            yield c


def normalize(case):
    return (case[0], sh.normalize_names(case[1], sp.NAME_POOL))


def nontrivial(case):
    return not cm.is_plain(case[1]) or cm.has_group_or_ctc(case[1])


def selftest():
    sem.selftest()
    clafer.selftest()


def check(case):
    model = case[1]
    fm, fails = cm.built(model)
    if fails:
        return fails
    out = []
    try:
        text = ClaferWriter(engine.tmppath('m.txt'), fm).transform()
        engine.note(text)
        engine.tick()
    except Exception as exc:  # noqa: BLE001
        return [Fail('write-raises:%s' % type(exc).__name__, str(exc)[:200])]
    names = sh.names(model)
    try:
        got, declared, parsed = clafer.configs(text)
    except clafer.ClaferError as exc:
        return [Fail('uninterpretable', {'error': str(exc)[:200], 'text': text[:300]})]
    if sorted(declared) != sorted(names):
        out.append(Fail('feature-names', {'declared': declared, 'model': names}))
    else:
        want = set(sem.configs(model))
        if got != want:
            out.append(Fail('configurations', {'only_in_export': [sorted(s) for s in sorted(got - want, key=sorted)[:3]],
                                               'only_in_model': [sorted(s) for s in sorted(want - got, key=sorted)[:3]],
                                               'text': text[:300]}))
    # attributes: declared and used with the same identifier, type matches the value
    decls = parsed['decls']
    src_attrs = {}
    for f in sh.features(model):
        for (an, av) in f[5]:
            src_attrs.setdefault(f[0], []).append((an, sh.thaw(av)))
    used = {}
    for owner, ident, value in parsed['assignments']:
        used.setdefault(owner['name'], []).append((ident, value))
        if ident not in decls:
            out.append(Fail('attribute-used-but-not-declared', {'used': ident, 'declared': sorted(decls)}))
        if owner['super'] != 'AttributedFeature':
            out.append(Fail('attributed-feature-without-super', owner['name']))
    for fname, attrs in src_attrs.items():
        got_attrs = used.get(fname, [])
        if len(got_attrs) != len(attrs):
            out.append(Fail('attribute-missing', {'feature': fname, 'used': got_attrs}))
            continue
        for (an, av), (ident, value) in zip(attrs, got_attrs):
            if clafer._unq(ident) != an:
                out.append(Fail('attribute-name', {'source': an, 'export': ident}))
            want_type = TYPE_OF.get(type(av))
            if ident in decls and want_type and decls[ident] != want_type:
                out.append(Fail('attribute-type', {'attribute': an, 'declared': decls[ident], 'value': repr(av)}))
    if re.search(r'\b(XOR|AND|OR|NOT|IMPLIES|EQUIVALENCE|REQUIRES|EXCLUDES)\b', '\n'.join(l for l in text.split('\n') if l.startswith('['))):
        out.append(Fail('untranslated-operator', None))
    if bd.observe(fm) != model:
        out.append(Fail('export-mutates-model', None))
    if not out and sh.size(model) <= 2:
        bad = cm.bare_name_write(ClaferWriter, fm, 'txt', text)
        if bad is not None:
            out.append(bad)
    return out


def outcome(case):
    return case[0]
