"""C20 - equality and hashing of model elements obey the contract."""
from __future__ import annotations

import itertools

from .. import build as bd
from .. import engine, sem
from .. import shadow as sh
from .. import space as sp
from ..engine import Fail
from . import common as cm

ID = 'C20'
BOUNDS = {'quick': 5, 'thorough': 6}
PERM_CAP = 720


def _ctc_lists():
    x, y, z = cm.XYZ
    pool = [('REQUIRES', x, y), ('EXCLUDES', y, z), ('OR', x, ('NOT', z, None)), ('AND', ('IMPLIES', x, y), z),
            ('XOR', x, y), ('EQUIVALENCE', z, x)]
    out = [()]
    for t in pool:
        out.append((t,))
    out.append((pool[0], pool[0], pool[1]))
    out.append((pool[1], pool[2], pool[2]))
    for i in range(len(pool)):
        for j in range(len(pool)):
            if i != j:
                out.append((pool[i], pool[j]))
    return out


def cases(tier, seed):
    n = BOUNDS[tier]
    for m in sp.structures_upto(n):
        yield ('E', m)
    for m in sp.structures_upto(4, star=True):
        if any(b == -1 for (_p, _a, b, _k) in sh.relations(m)):
            yield ('E', m)
    lists = _ctc_lists()
    for k in range(2, min(n, 4) + 1):
        for m in sp.structures(k):
            for trees in lists[1:]:
                mm = m
                for i, t in enumerate(trees):
                    mm = cm.with_ctc(mm, t, name='c%d' % (i + 1))
                yield ('E', mm)
    from . import families
    for m in families.models(11):
        yield ('E', m)
    from . import rt
    for m in rt.collision_models():
        yield ('E', m)
    F, R, M = sh.F, sh.R, sh.M
    for (g1, g2) in ((('a, b', 'c'), ('a', 'b, c')), (('a b', 'c'), ('a', 'b c')), (('ab', 'c'), ('a', 'bc')), (('a,b', 'c'), ('a', 'b,c')),
                     (('Slot1', 'Slot01'), ('Slot001', 'Slot10')), (('v2.0', 'v2.00'), ('v02.0', 'x')), (('A1', 'a1'), ('A01', 'a01'))):
        for card in ((1, 1), (0, 1), (1, 2)):
            yield ('E', M(F('Fa', [R(card[0], card[1], [F(n) for n in g1]), R(card[0], card[1], [F(n) for n in g2])])))
    yield ('E', M(F('Fa', [R(1, 3, [F('Slot1'), F('Slot01'), F('Slot001')]), R(0, 1, [F('Slot2')]), R(0, 1, [F('Slot02')])])))
    # aggregates with and without their optional second argument, at the root of a comparison and below it
    for agg in ('SUM', 'AVG'):
        for second in (None, 'x', 'y'):
            yield ('E', cm.on_carrier([('LOWER', (agg, 'att', second), 100)]))
            yield ('E', cm.on_carrier([('AND', 'x', ('GREATER', ('ADD', (agg, 'att', second), 3), 7))]))
    # all of K_1 as the single constraint of one carrier (operator/operand edits on every shape)
    for t in cm.k1():
        yield ('E', cm.on_carrier([t]))


def plan(tier):
    return {
        'chunk': 60,
        'bounds': 'S<=%d without constraints; S in 2..4 x 36 constraint lists (0-2 constraints); K_1^3 on a carrier; '
                  'every permutation of children / relations / constraints (product <= %d, else all adjacent transpositions '
                  'and the full reversal); every single-point edit' % (BOUNDS[tier], PERM_CAP),
        'rule': 'for every model: independently rebuilt permuted copies must be equal (both directions, != false, equal hashes, '
                'set/dict member) and every single edit (rename incl. case-only, move leaf, merge/split relations, +-1 on a '
                'cardinality, operator/operand change, add/drop constraint) must be unequal; element-level contracts for '
                'Feature, Relation, Constraint; non-trivial = at least one group or two relations under one parent or a constraint',
        'assumptions': ['names unique'],
    }


describe = cm.describe_model_case
reduce = cm.reduce_model_case


def normalize(case):
    return (case[0], sh.normalize_names(case[1], sp.NAME_POOL))


def nontrivial(case):
    m = case[1]
    return cm.has_group_or_ctc(m) or any(len(f[1]) > 1 for f in sh.features(m))


def selftest():
    sem.selftest()


# ----------------------------------------------------------------------------- permutations

def _perm_sites(model):
    """List of (kind, path/idx, size) for every permutable sequence."""
    sites = []
    for path, f in sh._paths(model[0]):
        if len(f[1]) > 1:
            sites.append(('rels', path, len(f[1])))
        for ri, (_a, _b, kids) in enumerate(f[1]):
            if len(kids) > 1:
                sites.append(('kids', (path, ri), len(kids)))
    if len(model[1]) > 1:
        sites.append(('ctcs', None, len(model[1])))
    return sites


def _apply_perm(model, site, perm):
    kind, where, _n = site
    if kind == 'ctcs':
        return (model[0], tuple(model[1][i] for i in perm))
    if kind == 'rels':
        def fn(g):
            return (g[0], tuple(g[1][i] for i in perm), g[2], g[3], g[4], g[5])
        return (sh._replace_feature(model[0], list(where), fn), model[1])
    path, ri = where

    def fn2(g):
        a, b, kids = g[1][ri]
        return (g[0], g[1][:ri] + ((a, b, tuple(kids[i] for i in perm)),) + g[1][ri + 1:], g[2], g[3], g[4], g[5])
    return (sh._replace_feature(model[0], list(path), fn2), model[1])


def _site_order(sites):
    """Deepest sites first (their paths run through the indices of shallower features); at one
    feature the child permutations come before the permutation of its relations."""
    def key(i):
        kind, where, _n = sites[i]
        if kind == 'ctcs':
            return (1, 0, 0)
        depth = len(where) if kind == 'rels' else len(where[0])
        return (0, -depth, kind == 'rels')
    return key


def permuted_copies(model):
    sites = _perm_sites(model)
    if not sites:
        return [], False
    total = 1
    for s in sites:
        for k in range(2, s[2] + 1):
            total *= k
    out = []
    capped = total > PERM_CAP
    if not capped:
        # NB: child permutations are applied before relation permutations (paths stay valid
        # because 'kids' sites address relations by index under an unpermuted parent) -> apply
        # kids/ctcs sites first, rels sites last, deepest first.
        order = sorted(range(len(sites)), key=_site_order(sites))
        for combo in itertools.product(*[list(itertools.permutations(range(sites[i][2]))) for i in order]):
            m = model
            for i, perm in zip(order, combo):
                m = _apply_perm(m, sites[i], perm)
            if m != model:
                out.append(m)
    else:
        for s in sites:
            n = s[2]
            for i in range(n - 1):
                perm = list(range(n))
                perm[i], perm[i + 1] = perm[i + 1], perm[i]
                out.append(_apply_perm(model, s, tuple(perm)))
        m = model
        order = sorted(range(len(sites)), key=_site_order(sites))
        for i in order:
            m = _apply_perm(m, sites[i], tuple(reversed(range(sites[i][2]))))
        out.append(m)
    return out, capped


# ----------------------------------------------------------------------------- edits

def _rename(model, old, new, in_ctcs):
    def ren_f(f):
        return (new if f[0] == old else f[0], tuple((a, b, tuple(ren_f(k) for k in kids)) for (a, b, kids) in f[1]),
                f[2], f[3], f[4], f[5])
    ctcs = model[1]
    if in_ctcs:
        ctcs = tuple((n, cm.map_names(t, {old: new})) for n, t in ctcs)
    return (ren_f(model[0]), ctcs)


def edits(model):
    out = []
    feats = sh.features(model)
    names = [f[0] for f in feats]
    pm = sh.parent_map(model)
    for n in names:
        out.append(('rename', _rename(model, n, 'Qx', False)))
        cased = n.swapcase()
        if cased != n and cased not in names:
            out.append(('rename-case', _rename(model, n, cased, False)))
    used = set(x for _n, t in model[1] for x in sh.tree_names(t))
    # move a leaf to another parent
    for path, f in sh._paths(model[0]):
        if path and not f[1]:
            base = sh._replace_feature(model[0], list(path), lambda _g: None)
            for path2, g in sh._paths(base):
                if g[0] == pm[f[0]]:
                    continue

                def add(h, f=f):
                    return (h[0], h[1] + ((0, 1, (f,)),), h[2], h[3], h[4], h[5])
                out.append(('move-leaf', (sh._replace_feature(base, list(path2), add), model[1])))
    for path, f in sh._paths(model[0]):
        rels = f[1]
        for ri in range(len(rels) - 1):
            a, b, k1 = rels[ri]
            _a2, _b2, k2 = rels[ri + 1]
            merged = rels[:ri] + ((a, b, k1 + k2),) + rels[ri + 2:]
            out.append(('merge-relations', (sh._replace_feature(model[0], list(path), lambda g, merged=merged: (g[0], merged, g[2], g[3], g[4], g[5])), model[1])))
        for ri, (a, b, kids) in enumerate(rels):
            if len(kids) > 1:
                split = rels[:ri] + ((a, b, kids[:-1]), (a, b, kids[-1:])) + rels[ri + 1:]
                out.append(('split-relation', (sh._replace_feature(model[0], list(path), lambda g, split=split: (g[0], split, g[2], g[3], g[4], g[5])), model[1])))
            cands = [(a + 1, b), (a - 1, b), (a, b + 1), (a, b - 1)]
            if b >= 0 and path in ((), ((0, 0),)):
                # bounds that differ by the modulus of CPython's integer hash (hash(x) == hash(x + 2**61 - 1))
                cands += [(a, b + 2 ** 61 - 1), (a + 2 ** 61 - 1, b + 2 ** 61 - 1), (a, b + 2 ** 64)]
            if b == -1:
                cands = [(a + 1, b), (a, len(kids)), (a, len(kids) + 1)]
            elif b == len(kids):
                cands.append((a, -1))
            for (a2, b2) in cands:
                if a2 < 0 or b2 < -1 or (a2, b2) == (a, b):
                    continue
                changed = rels[:ri] + ((a2, b2, kids),) + rels[ri + 1:]
                out.append(('card', (sh._replace_feature(model[0], list(path), lambda g, changed=changed: (g[0], changed, g[2], g[3], g[4], g[5])), model[1])))
    # a constraint replaced by a copy of another one (multiplicities change, the set may not)
    for ci in range(len(model[1])):
        for cj in range(len(model[1])):
            if ci != cj and model[1][ci][1] != model[1][cj][1]:
                repl = model[1][:ci] + ((model[1][ci][0], model[1][cj][1]),) + model[1][ci + 1:]
                out.append(('ctc-duplicate', (model[0], repl)))
    ops = sh.BINARY_LOGICAL
    for ci, (cn, t) in enumerate(model[1]):
        rest_before, rest_after = model[1][:ci], model[1][ci + 1:]
        out.append(('drop-ctc', (model[0], rest_before + rest_after)))
        for t2 in _tree_edits(t, ops):
            out.append(('ctc-edit', (model[0], rest_before + ((cn, t2),) + rest_after)))
        for t2 in _aggregate_edits(t):
            out.append(('ctc-aggregate-argument', (model[0], rest_before + ((cn, t2),) + rest_after)))
        # one operand replaced by another feature of the model
        for t2 in _operand_swaps(t, names[:6]):
            out.append(('ctc-operand', (model[0], rest_before + ((cn, t2),) + rest_after)))
    out.append(('add-ctc', (model[0], model[1] + (('cz', ('REQUIRES', names[0], 'Qx')),))))
    assert used is not None
    return out


def _aggregate_edits(t):
    """An aggregate gains / loses / changes its optional second argument."""
    if not isinstance(t, tuple):
        return
    op, left, right = t
    if op in ('SUM', 'AVG'):
        for alt in (None, 'Bb', 'Dc'):
            if alt != right:
                yield (op, left, alt)
        return
    for l2 in _aggregate_edits(left):
        yield (op, l2, right)
    if right is not None:
        for r2 in _aggregate_edits(right):
            yield (op, left, r2)


def _operand_swaps(t, names):
    if not isinstance(t, tuple):
        for n in names:
            if n != t:
                yield n
        return
    op, left, right = t
    for l2 in _operand_swaps(left, names):
        yield (op, l2, right)
    if right is not None:
        for r2 in _operand_swaps(right, names):
            yield (op, left, r2)


def _tree_edits(t, ops):
    if not isinstance(t, tuple):
        yield 'Qx'
        return
    op, left, right = t
    if op == 'NOT':
        yield left
    elif op not in ops:
        pass        # comparison / arithmetic / aggregate node: only its operands are edited
    else:
        yield (ops[(ops.index(op) + 1) % len(ops)], left, right)
        if left != right:
            yield (op, right, left) if op in ('IMPLIES', 'REQUIRES') else (ops[(ops.index(op) + 2) % len(ops)], left, right)
    for l2 in _tree_edits(left, ops):
        yield (op, l2, right)
    if right is not None:
        for r2 in _tree_edits(right, ops):
            yield (op, left, r2)


def inplace_edits(model):
    """(kind, function mutating a real model in place, expected shadow afterwards)."""
    out = []
    if model[1]:
        cn, t = model[1][0]
        t2 = next(_tree_edits(t, sh.BINARY_LOGICAL))
        em = (model[0], ((cn, t2),) + model[1][1:])

        def set_ast(fm, t2=t2):
            from flamapy.core.models.ast import AST
            fm.ctcs[0].ast = AST(bd.node(t2))
        out.append(('ctc-ast', set_ast, em))
    rels = sh.relations(model)
    if rels:
        p, a, b, ks = rels[0]

        def set_card(fm):
            fm.get_relations()[0].card_max = b + 1
        root = model[0]
        path0 = next(path for path, f in sh._paths(root) if f[1])
        em = (sh._replace_feature(root, list(path0), lambda g: (g[0], ((g[1][0][0], g[1][0][1] + 1, g[1][0][2]),) + g[1][1:], g[2], g[3], g[4], g[5])), model[1])
        out.append(('card', set_card, em))
    last = sh.names(model)[-1]
    if not any(last in sh.tree_names(t) for _n, t in model[1]):
        def ren(fm):
            next(f for f in fm.get_features() if f.name == last).name = 'Qx'
        out.append(('rename', ren, _rename(model, last, 'Qx', False)))
    return out


# ----------------------------------------------------------------------------- oracle

def _eq_contract(a, b, what, out, expect_equal):
    try:
        e1, e2 = (a == b), (b == a)
        n1, n2 = (a != b), (b != a)
        engine.tick(4)
    except Exception as exc:  # noqa: BLE001
        out.append(Fail('%s-compare-raises:%s' % (what, type(exc).__name__), str(exc)[:200]))
        return
    if e1 != e2 or n1 != n2:
        out.append(Fail('%s-asymmetric' % what, [e1, e2, n1, n2]))
    if e1 == n1:
        out.append(Fail('%s-eq-ne-inconsistent' % what, [e1, n1]))
    if expect_equal and not (e1 and e2):
        out.append(Fail('%s-permuted-copy-unequal' % what, None))
    if not expect_equal and (e1 or e2):
        out.append(Fail('%s-edit-equal' % what, None))
    if e1:
        try:
            if hash(a) != hash(b):
                out.append(Fail('%s-equal-but-hash-differs' % what, None))
        except Exception as exc:  # noqa: BLE001
            out.append(Fail('%s-hash-raises:%s' % (what, type(exc).__name__), str(exc)[:200]))


def _use(fm):
    from flamapy.metamodels.fm_metamodel import operations as ops
    from flamapy.metamodels.fm_metamodel.transformations import SPLOTWriter
    from flamapy.metamodels.fm_metamodel.transformations.pl_writer import PLWriter
    from .c19 import OPS
    for name in OPS:
        try:
            op = getattr(ops, name)()
            if name == 'FMFeatureAncestors':
                op.set_feature(fm.get_features()[-1])
            op.execute(fm).get_result()
        except Exception:  # noqa: BLE001   (a failing operation is C13-C17's subject)
            pass
    for meth in ('get_simple_constraints', 'get_complex_constraints', 'get_pseudocomplex_constraints', 'get_strictcomplex_constraints',
                 'get_requires_constraints', 'get_excludes_constraints', 'get_mandatory_features', 'get_optional_features'):
        try:
            getattr(fm, meth)()
        except Exception:  # noqa: BLE001
            pass
    for W, ext in ((SPLOTWriter, 'sxfm'), (PLWriter, 'exp')):
        try:
            W(engine.tmppath('c20.' + ext), fm).transform()
        except Exception:  # noqa: BLE001
            pass
    engine.tick(len(OPS) + 10)


def _lower_ctcs(model):
    def low(t):
        if isinstance(t, tuple):
            return (t[0], low(t[1]), low(t[2]))
        return t.lower() if isinstance(t, str) else t
    return sorted((repr(low(t)) for _n, t in model[1]))


def _elements(fm):
    feats = {f.name: f for f in fm.get_features()}
    rels = {(r.parent.name, frozenset(c.name for c in r.children)): r for r in fm.get_relations()}
    ctcs = {c.name: c for c in fm.get_constraints()}
    return feats, rels, ctcs


def check(case):
    model = case[1]
    fm, fails = cm.built(model)
    if fails:
        return fails
    out = []
    # reflexivity, container use
    for what, objs in (('model', [fm]), ('feature', fm.get_features()), ('relation', fm.get_relations()),
                       ('constraint', fm.get_constraints())):
        for o in objs:
            try:
                if not (o == o) or (o != o):
                    out.append(Fail('%s-not-reflexive' % what, str(o)[:80]))
                if hash(o) != hash(o):
                    out.append(Fail('%s-hash-unstable' % what, None))
                if o not in {o} or {o: 1}[o] != 1:
                    out.append(Fail('%s-not-usable-in-containers' % what, None))
                engine.tick(5)
            except Exception as exc:  # noqa: BLE001
                out.append(Fail('%s-contract-raises:%s' % (what, type(exc).__name__), str(exc)[:200]))
    if out:
        return out
    feats, rels, ctcs = _elements(fm)
    copies, _capped = permuted_copies(model)
    copies = [model] + copies          # an identical independent rebuild is the first copy
    for pm_ in copies:
        fm2 = bd.build(pm_)
        engine.tick()
        sub = []
        _eq_contract(fm, fm2, 'model', sub, True)
        if fm not in {fm2} and not sub:
            sub.append(Fail('model-permuted-copy-not-found-in-set', None))
        f2, r2, c2 = _elements(fm2)
        for k, r in rels.items():
            if k in r2:
                _eq_contract(r, r2[k], 'relation', sub, True)
        for k, f in feats.items():
            _eq_contract(f, f2[k], 'feature', sub, True)
        for k, c in ctcs.items():
            _eq_contract(c, c2[k], 'constraint', sub, True)
        if sub:
            for f in sub:
                f.detail = {'copy': sh.model_str(pm_), 'info': f.detail}
            out.extend(sub)
            break
    # the model is used (every read-only operation, the constraint-kind listings, two exports) and is
    # then still equal to, and hashes like, an independently built permuted copy
    if not out:
        _use(fm)
        sub = []
        for pm_ in copies[:3]:
            fm2 = bd.build(pm_)
            _eq_contract(fm, fm2, 'model', sub, True)
            f2, r2, c2 = _elements(fm2)
            for k, c in ctcs.items():
                _eq_contract(c, c2[k], 'constraint', sub, True)
            for k, r in rels.items():
                if k in r2:
                    _eq_contract(r, r2[k], 'relation', sub, True)
            if sub:
                break
        for f in sub:
            f.clause = f.clause + ':after-the-model-was-analysed'
        out.extend(sub)
    seen_clauses = set(f.clause for f in out)
    for (ekind, em) in edits(model):
        if em == model:
            continue
        if em[0] == model[0] and _lower_ctcs(em) == _lower_ctcs(model):
            continue        # the constraints differ in letter case only: the statement exempts that
        fm3 = bd.build(em)
        engine.tick()
        sub = []
        _eq_contract(fm, fm3, 'model', sub, False)
        for f in sub:
            f.clause = f.clause + ':' + ekind
            if f.clause not in seen_clauses:
                seen_clauses.add(f.clause)
                f.detail = {'edit': sh.model_str(em), 'info': f.detail}
                out.append(f)
    # in-place edits of an object that has already been compared and hashed (stale caches)
    for (ekind, apply_edit, em) in inplace_edits(model):
        fm_e = bd.build(model)
        try:
            hash(fm_e)
            _warm = (fm_e == fm, [hash(c) for c in fm_e.get_constraints()], [c == c for c in fm_e.get_constraints()],
                     sorted(fm_e.get_constraints()), [hash(r) for r in fm_e.get_relations()])
            cm.checked_edit(fm_e, apply_edit, model, em, ekind)
            engine.tick(3)
        except AssertionError:
            raise
        except Exception as exc:  # noqa: BLE001
            out.append(Fail('inplace-edit-raises:%s' % type(exc).__name__, {'edit': ekind, 'msg': str(exc)[:150]}))
            continue
        sub = []
        _eq_contract(fm_e, bd.build(em), 'model', sub, True)
        _eq_contract(fm_e, fm, 'model', sub, False)
        for f in sub:
            f.clause = f.clause + ':after-inplace-' + ekind
            if f.clause not in seen_clauses:
                seen_clauses.add(f.clause)
                f.detail = {'edited': sh.model_str(em)}
                out.append(f)
    # the same expression under another constraint name: equal, hence equal hashes
    for cn, t in model[1]:
        a, b = bd.constraint(cn, t), bd.constraint(cn + 'other', t)
        _eq_contract(a, b, 'constraint-other-name', out, a == b)
    if model[1]:
        renamed = (model[0], tuple(('k%d' % i, t) for i, (_n, t) in enumerate(reversed(model[1]))))
        _eq_contract(fm, bd.build(renamed), 'model-other-ctc-names', out, True)
    # letter-case variants of a name: whatever equality says, the hash contract must hold
    from flamapy.metamodels.fm_metamodel.models import Feature
    for n in sh.names(model)[:3]:
        for v in {n.upper(), n.lower(), n.swapcase()} - {n}:
            f1, f2 = Feature(n), Feature(v)
            _eq_contract(f1, f2, 'feature-case-variant', out, f1 == f2)
    # element level inequalities
    fl = list(feats.values())
    for a, b in zip(fl, fl[1:]):
        _eq_contract(a, b, 'feature', out, False)
    rl = list(rels.values())
    for a, b in zip(rl, rl[1:]):
        _eq_contract(a, b, 'relation', out, False)
    return out


def outcome(case):
    copies, capped = permuted_copies(case[1])
    return 'copies=%d%s' % (len(copies), '+cap' if capped else '')
