"""C10 - SPLOT and propositional exports denote exactly the model's configurations."""
from __future__ import annotations

from flamapy.metamodels.fm_metamodel.transformations import SPLOTWriter
from flamapy.metamodels.fm_metamodel.transformations.pl_writer import PLWriter

from .. import build as bd
from .. import engine, sem
from .. import shadow as sh
from .. import space as sp
from ..engine import Fail
from ..lang import plexp, sxfm
from . import common as cm

ID = 'C10'
BOUNDS = {'quick': (6, 4), 'thorough': (7, 5)}


def in_fragment(m):
    return all(sem.kind(a, b, len(k)) is not None for (_p, a, b, k) in sh.relations(m))


def cases(tier, seed):
    n_plain, n_ctc = BOUNDS[tier]
    for m in sp.structures_upto(n_plain):
        if in_fragment(m):
            yield ('S', m)
    ksets = list(cm.k1()) + list(cm.k2_subset())
    for n in range(3, n_ctc + 1):
        for m in sp.structures(n):
            if in_fragment(m):
                for t in ksets:
                    yield ('SK', cm.with_ctc(m, t))
    from . import families
    for m in families.models():
        # the propositional export of an [a..b] group lists every admissible combination (exponential):
        # only groups of at most 6 children are exported in that form here
        if in_fragment(m) and not any(sem.kind(a, b, len(k)) == 'cardinality' and len(k) > 6 for (_p, a, b, k) in sh.relations(m)):
            yield ('S', m)
    for t in families.long_chains():
        yield ('SK', cm.on_carrier([t]))
    for t in families.deep_trees():
        yield ('SK', cm.on_carrier([t]))
    # identifiers that contain operator keywords as substrings (both exports)
    kwnames = ['MONITOR', 'ANDROID', 'NOTES', 'XORG', 'ORacle', 'notAND', 'IMPLIESx', 'xREQUIRES', 'EXCLUDESy', 'EQUIVALENCEz', 'NOT1', 'Or', 'not_x', 'band']
    for i in range(0, len(kwnames) - 2):
        trio = kwnames[i:i + 3]
        car = sh.M(sh.F('Fa', [sh.R(0, 1, [sh.F(trio[0])]), sh.R(0, 1, [sh.F(trio[1])]), sh.R(1, 2, [sh.F(trio[2]), sh.F('Zz')])]))
        for t in list(cm.k1())[::4] + list(cm.k2_subset())[::6]:
            yield ('SK', (car[0], (('c1', cm.map_names(t, {'x': trio[0], 'y': trio[1], 'z': trio[2]})),)))
    # names that need quoting: only the SXFM export has a quoting convention
    for nm in ('Live\u2028Chat', 'a b', 'a\x0cb', 'a\x85b', 'x\ry', 'Caf\u00e9', 'a-b'):
        car = sh.M(sh.F('Fa', [sh.R(0, 1, [sh.F(nm, [sh.R(1, 1, [sh.F('Bb')])])]), sh.R(0, 1, [sh.F('Dc')])]))
        yield ('SN', car)
        yield ('SN', (car[0], (('c1', ('REQUIRES', 'Dc', nm)),)))
    from . import rt
    for m in rt.collision_models():
        if all(n.isidentifier() and n.isascii() for n in sh.names(m)):
            yield ('SK', m)
    for t1 in cm.k1()[::5]:
        for t2 in cm.k1()[::5]:
            yield ('SK', cm.on_carrier([t1, t2]))
    # ten and more constraints (two-digit clause / formula numbers), a multi-clause one first, in the middle, last
    multi = [('EQUIVALENCE', 'x', ('AND', 'y', 'z')), ('XOR', 'x', 'y'), ('AND', ('OR', 'x', 'y'), ('OR', ('NOT', 'x', None), 'z'))]
    single = [('REQUIRES', 'x', 'y'), ('EXCLUDES', 'y', 'z'), ('OR', 'x', ('OR', 'y', 'z')), ('IMPLIES', 'z', 'x')]
    for n in (10, 11, 12, 21):
        for mi, mt in enumerate(multi):
            for pos in (0, n // 2, n - 1):
                trees = [single[(i + mi) % len(single)] for i in range(n)]
                trees[pos] = mt
                yield ('SK', cm.on_carrier(trees))
    # [a..b] groups too wide for the exhaustive comparison of the propositional export: every selection of the
    # group's members is judged by its number of selected members (thorough: all 2^n, quick: two per count)
    for (n, a, b) in ((14, 5, 8), (16, 2, 3)) if tier == 'thorough' else ((14, 5, 8),):
        parts = 1024 if tier == 'thorough' else 1     # (a part has to stay well below the 60 s limit of one case, also on a loaded machine)
        for part in range(parts):
            yield ('WG', n, a, b, part, parts)


def plan(tier):
    n_plain, n_ctc = BOUNDS[tier]
    return {
        'chunk': 200,
        'bounds': 'S<=%d (six relation kinds, several relations per parent); S in 3..%d x (K_1^3 + K_2 subset) constraint trees '
                  '; pairs of constraints on a carrier' % (n_plain, n_ctc),
        'rule': 'each export is treated as a program: interpreted by an independent SXFM / .exp interpreter over all 2^n '
                'selections and compared with the brute-force configurations of the shadow; every feature must occur in the '
                'export; uninterpretable output is a violation; non-trivial = group or constraint',
        'assumptions': ['SXFM semantics as in vmc.lang.sxfm; .exp precedence not > and > or > -> > <-> (vmc.lang.plexp); '
                        'XOR accepted as a connective of the propositional format'],
    }


def describe(case):
    if case[0] == 'WG':
        return 'WG:[%d..%d] group of %d leaves (part %d of %d)' % (case[2], case[3], case[1], case[4] + 1, case[5])
    return cm.describe_model_case(case)


def reduce(case):
    if case[0] == 'WG':
        return
    for c in cm.reduce_model_case(case):
        if in_fragment(c[1]):
            yield c


def normalize(case):
    if case[0] == 'WG':
        return case
    return (case[0], sh.normalize_names(case[1], sp.NAME_POOL))


def nontrivial(case):
    return case[0] == 'WG' or cm.has_group_or_ctc(case[1])


def selftest():
    sem.selftest()
    sxfm.selftest()
    plexp.selftest()


import functools


@functools.lru_cache(maxsize=4)
def _wide_group_formulas(n, a, b):
    """Export of the one-group model, parsed once per worker process (the text of a [5..8] group of 14
    leaves has more than 10 000 conjunctions)."""
    kids = ['G%02d' % i for i in range(n)]
    model = sh.M(sh.F('Fa', [sh.R(a, b, [sh.F(k) for k in kids])]))
    fm, fails = cm.built(model)
    if fails:
        return kids, None, fails
    try:
        text = PLWriter(engine.tmppath('wg.exp'), fm).transform()
        forms = plexp.parse_lines(text)
        engine.tick()
    except plexp.ExpError as exc:
        return kids, None, [Fail('pl-uninterpretable', str(exc)[:200])]
    except Exception as exc:  # noqa: BLE001
        return kids, None, [Fail('pl-write-raises:%s' % type(exc).__name__, str(exc)[:200])]
    return kids, forms, []


def _wide_group(case):
    import itertools
    _k, n, a, b, part, parts = case
    kids, forms, fails = _wide_group_formulas(n, a, b)
    if fails:
        return fails
    used = set()
    for f in forms:
        plexp.idents(f, used)
    if used != set(kids) | {'Fa'}:
        return [Fail('pl-feature-missing' if set(kids) | {'Fa'} - used else 'pl-unknown-features', sorted(used ^ (set(kids) | {'Fa'}))[:5])]
    if parts == 1:
        subsets = []
        for k in range(n + 1):
            subsets.append(kids[:k])
            subsets.append(kids[n - k:])
            subsets.append(kids[k // 2:k // 2 + k])
    else:
        subsets = [[kid for kid, bit in zip(kids, bits) if bit]
                   for i, bits in enumerate(itertools.product((False, True), repeat=n)) if i % parts == part]
    for sub in subsets:
        for root in (True, False):
            sel = set(sub) | ({'Fa'} if root else set())
            want = root and a <= len(sub) <= b
            got = all(plexp.ev(f, sel) for f in forms)
            engine.tick()
            if got != want:
                return [Fail('pl-configurations', {'selected members': len(sub), 'root selected': root, 'export accepts': got, 'model accepts': want})]
    engine.validated()
    return []


def check(case):
    if case[0] == 'WG':
        return _wide_group(case)
    model = case[1]
    fm, fails = cm.built(model)
    if fails:
        return fails
    out = []
    names = sh.names(model)
    want = set(sem.configs(model))
    # ---- SPLOT
    try:
        text = SPLOTWriter(engine.tmppath('m.sxfm'), fm).transform()
        engine.tick()
        engine.note(text)
    except Exception as exc:  # noqa: BLE001
        out.append(Fail('splot-write-raises:%s' % type(exc).__name__, str(exc)[:200]))
        text = None
    if text is not None:
        try:
            got, ids = sxfm.configs(text)
            missing = sorted(set(names) - set(ids))
            if missing:
                out.append(Fail('splot-feature-missing', missing))
            elif set(ids) != set(names):
                out.append(Fail('splot-unknown-features', sorted(set(ids) - set(names))))
            elif got != want:
                out.append(Fail('splot-configurations', _diff(got, want)))
        except sxfm.SXFMError as exc:
            out.append(Fail('splot-uninterpretable', str(exc)[:200]))
    # ---- propositional
    if case[0] == 'SN':
        return out
    try:
        text = PLWriter(engine.tmppath('m.exp'), fm).transform()
        engine.tick()
        engine.note(text)
    except Exception as exc:  # noqa: BLE001
        out.append(Fail('pl-write-raises:%s' % type(exc).__name__, str(exc)[:200]))
        text = None
    if text is not None:
        try:
            got, used = plexp.configs(text, names)
            missing = sorted(set(names) - set(used))
            if missing:
                out.append(Fail('pl-feature-missing', missing))
            elif got != want:
                out.append(Fail('pl-configurations', _diff(got, want)))
        except plexp.ExpError as exc:
            out.append(Fail('pl-uninterpretable', {'error': str(exc)[:150], 'text': text[:300]}))
    if bd.observe(fm) != model:
        out.append(Fail('export-mutates-model', None))
    if not out and model[1] and sh.size(model) <= 4 and case[0] == 'SK':
        out.extend(_after_ctc_edits(model, names))
    if not out and sh.size(model) <= 2:
        for W, ext in ((SPLOTWriter, 'sxfm'), (PLWriter, 'exp')):
            try:
                expect = W(engine.tmppath('m2.' + ext), fm).transform()
            except Exception:  # noqa: BLE001
                continue
            bad = cm.bare_name_write(W, fm, ext, expect)
            if bad is not None:
                bad.clause = ext + ':' + bad.clause
                out.append(bad)
    return out


def _after_ctc_edits(model, names):
    """Export, edit the Node objects of the constraints in place, export again: the second export
    denotes the edited model."""
    from .c03 import ctc_edits
    for (what, edit, em) in ctc_edits(model):
        fm = bd.build(model)
        want = set(sem.configs(em))
        try:
            SPLOTWriter(engine.tmppath('e.sxfm'), fm).transform()
            PLWriter(engine.tmppath('e.exp'), fm).transform()
            cm.checked_edit(fm, edit, model, em, what)
            t1 = SPLOTWriter(engine.tmppath('e.sxfm'), fm).transform()
            t2 = PLWriter(engine.tmppath('e.exp'), fm).transform()
            engine.tick(4)
            got1, _ids = sxfm.configs(t1)
            got2, _used = plexp.configs(t2, names)
        except AssertionError:
            raise
        except Exception as exc:  # noqa: BLE001
            return [Fail('after-inplace-edit:raises:%s' % type(exc).__name__, {'edit': what, 'msg': str(exc)[:200]})]
        if got1 != want:
            return [Fail('after-inplace-edit:splot-configurations', {'edit': what, 'info': _diff(got1, want)})]
        if got2 != want:
            return [Fail('after-inplace-edit:pl-configurations', {'edit': what, 'info': _diff(got2, want)})]
    return []


def _diff(got, want):
    return {'only_in_export': [sorted(s) for s in sorted(got - want, key=sorted)[:3]],
            'only_in_model': [sorted(s) for s in sorted(want - got, key=sorted)[:3]],
            'export': len(got), 'model': len(want)}


def outcome(case):
    if case[0] == 'WG':
        return 'wide-group'
    return 'cfgs=%d' % len(sem.configs(case[1]))
