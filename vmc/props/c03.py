"""C03 - model queries agree with the feature tree they describe."""
from __future__ import annotations

import itertools

from .. import build as bd
from .. import engine, sem
from .. import shadow as sh
from .. import space as sp
from ..engine import Fail
from . import common as cm

ID = 'C03'
FTYPES = ('Boolean', 'Integer', 'Real', 'String')
FCARDS = ((1, 1), (0, 1), (1, 3), (2, 2), (1, -1))
BOUNDS = {'quick': (6, 2), 'thorough': (7, 3)}


def _rep_trees():
    x, y, z = cm.XYZ
    return [x, ('NOT', x, None), ('REQUIRES', x, y), ('EXCLUDES', x, y), ('IMPLIES', x, ('NOT', y, None)),
            ('OR', ('NOT', x, None), y), ('OR', ('NOT', x, None), ('NOT', y, None)), ('XOR', x, y),
            ('AND', x, ('OR', y, z)), ('EQUIVALENCE', x, y), ('NOT', ('AND', x, ('NOT', y, None)), None),
            ('GREATER', 'x.att', 3), ('EQUALS', ('SUM', 'att', 'x'), 3)]


def cases(tier, seed):
    n_s, n_t = BOUNDS[tier]
    for m in sp.structures_upto(n_s):
        yield ('S', m)
    from . import families, rt
    for m in families.models():
        yield ('S', m)
    for m in rt.collision_models():
        yield ('K', m)
    F, R, M = sh.F, sh.R, sh.M
    for first, second in (('Bb', 'Bb.att'), ('Bb.att', 'Bb'), ('Bb', 'att'), ('Fa', 'Fa.att')):
        kids = [R(0, 1, [F(first, attrs=[('att', sh.freeze(3))] if '.' not in first and first != 'att' else [])]),
                R(1, 1, [F(second, [R(0, 1, [F('Ee')])], attrs=[('att', sh.freeze(4))] if '.' not in second and second != 'att' else [])])]
        if 'Fa' in (first, second):
            yield ('T', M(F('Fa', [R(0, 1, [F('Fa.att', [R(1, 1, [F('Ee')])])]), R(0, 1, [F('Bb')])], attrs=[('att', sh.freeze(1))])))
        else:
            yield ('T', M(F('Fa', kids)))
    for t in families.deep_trees():
        yield ('K', cm.on_carrier([t]))
    # typed features / feature cardinalities: full product on small carriers
    for n in range(1, n_t + 1):
        for m in sp.structures(n):
            feats = sh.features(m)
            for combo in itertools.product(itertools.product(FTYPES, FCARDS), repeat=len(feats)):
                deco = {f[0]: c for f, c in zip(feats, combo)}

                def rec(f):
                    t, fc = deco[f[0]]
                    return (f[0], tuple((a, b, tuple(rec(k) for k in kids)) for (a, b, kids) in f[1]), f[2], t, fc, f[5])
                yield ('T', (rec(m[0]), ()))
    # models returned by the readers (library-written documents of small models, some corpus files)
    from . import c01, c05, c06, c07, c08
    for name, mod in (('uvl', c01), ('json', c05), ('afm', c06), ('featureide', c07), ('glencoe', c08)):
        for m in sp.structures_upto(3 if tier == 'quick' or name == 'uvl' else 4):
            if mod.in_fragment(m) and not (name == 'afm' and sh.size(m) == 1):
                yield ('R', name, m)
    from .c16 import corpus_files
    for rel in corpus_files(100)[:: (6 if tier == 'quick' else 1)]:
        yield ('RX', rel)
    # query -> in-place edit -> query histories (stale memoisation would show here)
    for m in sp.structures_upto(4 if tier == 'quick' else 5):
        yield ('E', m)
    for t in list(cm.k1()) + list(cm.k2_subset()):
        yield ('E', cm.on_carrier([t]))
    for t1 in _rep_trees()[::3]:
        for t2 in _rep_trees()[::3]:
            yield ('E', cm.on_carrier([t1, t2]))
    # constraint lists on a carrier
    singles = list(cm.k1()) + list(cm.arith_trees()) + list(cm.onearg_aggregate_trees()) + list(cm.k2_subset())
    for t in singles:
        yield ('K', cm.on_carrier([t]))
    reps = _rep_trees()
    for t1 in reps:
        for t2 in reps:
            yield ('K', cm.on_carrier([t1, t2]))


def plan(tier):
    n_s, n_t = BOUNDS[tier]
    return {
        'chunk': 300,
        'bounds': 'S<=%d (all cardinalities incl. [0..0]); types x feature cardinalities full product on S<=%d; '
                  'single constraints K_1^3 + K_2 subset + arithmetic/aggregate alphabet, all pairs of 13 representative trees' % (n_s, n_t),
        'rule': 'every structure state up to the bound is built by two construction routes (constructor route and '
                'incremental add_child route) and every public query is compared with the shadow model; non-trivial = '
                'has a group, a typed feature or a constraint',
        'assumptions': ['reference classification vmc.sem.kind', 'names unique (well-formed models)'],
        'coverage_extra': dict({'closed_form_counts': {str(k): sp.count_structures(k) for k in range(1, n_s + 1)}},
                               **_bfs_evidence(5 if tier == 'quick' else 6)),
    }


def _bfs_evidence(n):
    states, transitions = sp.bfs_crosscheck(n)
    return {'bfs_crosscheck': {'features_upto': n, 'states': states, 'transitions': transitions,
                               'equals_generator_and_closed_form': True}}


def describe(case):
    if case[0] == 'R':
        return 'R:%s | %s' % (case[1], sh.model_str(case[2]))
    if case[0] == 'RX':
        return 'RX:' + case[1]
    return cm.describe_model_case(case)


def reduce(case):
    if case[0] == 'RX':
        return
    if case[0] == 'R':
        for m in sh.reductions(case[2], sp.NAME_POOL):
            yield ('R', case[1], m)
        return
    yield from cm.reduce_model_case(case)


def nontrivial(case):
    if case[0] in ('R', 'RX'):
        return True
    m = case[1]
    return cm.has_group_or_ctc(m) or any(f[3] != 'Boolean' or f[4] != (1, 1) for f in sh.features(m))


def selftest():
    sem.selftest()


REL_PREDS = ('mandatory', 'optional', 'alternative', 'or', 'mutex', 'cardinality')
REL_METHODS = {'mandatory': 'is_mandatory', 'optional': 'is_optional', 'alternative': 'is_alternative',
               'or': 'is_or', 'mutex': 'is_mutex', 'cardinality': 'is_cardinal'}


def _ref_ctc_kinds(tree):
    ops = sh.tree_ops(tree)
    logical = all(o in sh.LOGICAL for o in ops)
    arithmetic = any(o in sh.ARITH or o in sh.COMPARISON for o in ops)
    aggregation = any(o in sh.AGGREGATE for o in ops)

    def term(t):
        return not isinstance(t, tuple)

    def negterm(t):
        return isinstance(t, tuple) and t[0] == 'NOT' and term(t[1])
    requires = excludes = False
    if isinstance(tree, tuple) and tree[0] != 'NOT' and tree[0] not in sh.AGGREGATE:
        op, left, right = tree
        if op in ('REQUIRES', 'IMPLIES'):
            requires = term(left) and term(right)
            excludes = term(left) and negterm(right)
        elif op == 'EXCLUDES':
            excludes = term(left) and term(right)
        elif op == 'OR':
            requires = (negterm(left) and term(right)) or (negterm(right) and term(left))
            excludes = negterm(left) and negterm(right)
    return {'logical': logical, 'arithmetic': arithmetic, 'aggregation': aggregation,
            'requires': requires, 'excludes': excludes}


def _oracle(fm, model, route):
    out = []

    def bad(clause, detail):
        out.append(Fail(clause, {'route': route, 'info': detail}))
    sfeats = sh.features(model)
    snames = [f[0] for f in sfeats]
    pm = sh.parent_map(model)
    srels = sh.relations(model)
    # --- listings
    feats = fm.get_features()
    engine.tick()
    if len(set(map(id, feats))) != len(feats) or sorted(f.name for f in feats) != sorted(snames):
        bad('get_features', [f.name for f in feats])
        return out
    rels = fm.get_relations()
    engine.tick()
    got_rels = sorted((r.parent.name, r.card_min, r.card_max, tuple(c.name for c in r.children)) for r in rels)
    if len(set(map(id, rels))) != len(rels) or got_rels != sorted(srels):
        bad('get_relations', got_rels)
        return out
    byname = {f.name: f for f in feats}
    for n in snames:
        if fm.get_feature_by_name(n) is not byname[n]:
            bad('get_feature_by_name', n)
    if fm.get_feature_by_name('NoSuchFeature') is not None or fm.get_feature_by_name('') is not None:
        bad('get_feature_by_name', 'unused name does not give None')
    # names that are no feature of this model but look like one: other letter case, surrounding blanks,
    # `feature.attribute`, a constraint name, an attribute name
    probes = set()
    for sf in sh.features(model):
        n = sf[0]
        if isinstance(n, str):
            probes.update({n.lower(), n.upper(), n.swapcase(), ' ' + n, n + ' ', '"%s"' % n})
            for (an, _av) in sf[5]:
                probes.update({'%s.%s' % (n, an), an})
    probes.update(cn for cn, _t in model[1])
    for pn in sorted(probes - set(snames)):
        got = fm.get_feature_by_name(pn)
        engine.tick()
        if got is not None:
            bad('get_feature_by_name', {'asked for': pn, 'which is no feature; got': getattr(got, 'name', repr(got))})
            break
    engine.tick(len(snames) + 2)
    # --- per feature tree queries
    for sf in sfeats:
        f = byname[sf[0]]
        par = f.get_parent()
        if (par.name if par is not None else None) != pm[sf[0]]:
            bad('get_parent', sf[0])
        kids = [c.name for c in f.get_children()]
        if kids != [k[0] for (_a, _b, ks) in sf[1] for k in ks]:
            bad('get_children', {sf[0]: kids})
        if f.is_root() != (pm[sf[0]] is None):
            bad('is_root', sf[0])
        if f.is_leaf() != (not sf[1]):
            bad('is_leaf', sf[0])
        if len(f.get_relations()) != len(sf[1]) or any(x is not y for x, y in zip(f.get_relations(), f.relations)):
            bad('feature.get_relations', sf[0])
    # --- relation classification
    relkind = {}
    for r in rels:
        a, b, s = r.card_min, r.card_max, len(r.children)
        want = sem.kind(a, b, s)
        got = [k for k in REL_PREDS if getattr(r, REL_METHODS[k])()]
        engine.tick(7)
        if len(got) != 1:
            bad('relation-class-count', {'card': [a, b], 'children': s, 'classes': got})
        elif got[0] != want:
            bad('relation-class', {'card': [a, b], 'children': s, 'got': got[0], 'want': want})
        if r.is_group() != (s > 1):
            bad('relation-is_group', {'card': [a, b], 'children': s})
        relkind[id(r)] = want
    # --- feature predicates from the reference classification
    def kinds_of(sf):
        return [sem.kind(a, b, len(ks)) for (a, b, ks) in sf[1]]

    def rel_of_child(name):
        for (p, a, b, ks) in srels:
            if name in ks:
                return sem.kind(a, b, len(ks))
        return None
    exp = {}
    for sf in sfeats:
        ks = kinds_of(sf)
        groups = [len(kk) > 1 for (_a, _b, kk) in sf[1]]
        exp[sf[0]] = {
            'is_mandatory': rel_of_child(sf[0]) == 'mandatory',
            'is_optional': rel_of_child(sf[0]) == 'optional',
            'is_or_group': 'or' in ks,
            'is_alternative_group': 'alternative' in ks,
            'is_mutex_group': 'mutex' in ks,
            'is_cardinality_group': 'cardinality' in ks,
            'is_group': any(groups),
            'is_multiple_group_decomposition': sum(groups) > 1,
            'is_boolean': sf[3] == 'Boolean',
            'is_numerical': sf[3] in ('Integer', 'Real'),
            'is_string': sf[3] == 'String',
            'is_multifeature': tuple(sf[4]) != (1, 1),
        }
        f = byname[sf[0]]
        for meth, want in exp[sf[0]].items():
            got = getattr(f, meth)()
            engine.tick()
            if got is not want:
                bad('feature.' + meth, {'feature': sh.feature_str(sf), 'got': got, 'want': want})
    listings = {'get_boolean_features': 'is_boolean', 'get_numerical_features': 'is_numerical',
                'get_string_features': 'is_string', 'get_mandatory_features': 'is_mandatory',
                'get_optional_features': 'is_optional', 'get_alternative_group_features': 'is_alternative_group',
                'get_or_group_features': 'is_or_group'}
    for meth, pred in listings.items():
        got = getattr(fm, meth)()
        engine.tick()
        want = sorted(n for n in snames if exp[n][pred])
        if sorted(f.name for f in got) != want or len(set(map(id, got))) != len(got) \
                or any(byname.get(f.name) is not f for f in got):
            bad('model.' + meth, {'got': [f.name for f in got], 'want': want})
    # --- constraints
    ctcs = fm.get_constraints()
    if len(ctcs) != len(model[1]) or any(x is not y for x, y in zip(ctcs, fm.ctcs)):
        bad('get_constraints', len(ctcs))
        return out
    ref = [_ref_ctc_kinds(t) for _n, t in model[1]]
    pred_of = {'get_logical_constraints': ('is_logical_constraint', 'logical'),
               'get_arithmetic_constraints': ('is_arithmetic_constraint', 'arithmetic'),
               'get_aggregations_constraints': ('is_aggregation_constraint', 'aggregation'),
               'get_requires_constraints': ('is_requires_constraint', 'requires'),
               'get_excludes_constraints': ('is_excludes_constraint', 'excludes'),
               'get_simple_constraints': ('is_simple_constraint', None),
               'get_complex_constraints': ('is_complex_constraint', None),
               'get_pseudocomplex_constraints': ('is_pseudocomplex_constraint', None),
               'get_strictcomplex_constraints': ('is_strictcomplex_constraint', None)}
    for meth, (pred, refkey) in pred_of.items():
        try:
            got = getattr(fm, meth)()
            engine.tick()
            if refkey is not None:
                want_idx = [i for i, r in enumerate(ref) if r[refkey]]
            elif pred == 'is_simple_constraint':
                want_idx = [i for i, r in enumerate(ref) if r['requires'] or r['excludes']]
            elif pred == 'is_complex_constraint':
                want_idx = [i for i, r in enumerate(ref) if r['logical'] and not (r['requires'] or r['excludes'])]
            else:
                want_idx = [i for i, c in enumerate(ctcs) if getattr(c, pred)()]
            got_idx = [i for i, c in enumerate(ctcs) if any(g is c for g in got)]
            if got_idx != want_idx or len(got) != len(got_idx):
                bad('model.' + meth, {'got': got_idx, 'want': want_idx,
                                      'ctcs': [sh.tree_str(t) for _n, t in model[1]]})
        except Exception as exc:  # noqa: BLE001
            bad('model.%s-raises:%s' % (meth, type(exc).__name__), str(exc)[:200])
    return out


def inplace_edits(model):
    """(description, function(fm) editing the real model in place, expected shadow)."""
    out = []
    root = model[0]
    for path, f in sh._paths(root):
        for ri, (a0, b0, kids) in enumerate(f[1]):
            for (a, b) in sp.cards_for(len(kids)):
                if (a, b) == (a0, b0):
                    continue

                def edit(fm, name=f[0], ri=ri, a=a, b=b):
                    rel = fm.get_feature_by_name(name).get_relations()[ri]
                    rel.card_min = a
                    rel.card_max = b
                em = (sh._replace_feature(root, list(path), lambda g, ri=ri, a=a, b=b: (g[0], g[1][:ri] + ((a, b, g[1][ri][2]),) + g[1][ri + 1:], g[2], g[3], g[4], g[5])), model[1])
                out.append(('card %s#%d -> [%d,%d]' % (f[0], ri, a, b), edit, em))

            def grow(fm, name=f[0], ri=ri):
                from flamapy.metamodels.fm_metamodel.models import Feature
                owner = fm.get_feature_by_name(name)
                child = Feature('Nw', [])
                owner.get_relations()[ri].add_child(child)
                child.parent = owner
            em = (sh._replace_feature(root, list(path), lambda g, ri=ri: (g[0], g[1][:ri] + ((g[1][ri][0], g[1][ri][1], g[1][ri][2] + (sh.F('Nw'),)),) + g[1][ri + 1:], g[2], g[3], g[4], g[5])), model[1])
            out.append(('add_child %s#%d' % (f[0], ri), grow, em))

        def newrel(fm, name=f[0]):
            from flamapy.metamodels.fm_metamodel.models import Feature, Relation
            owner = fm.get_feature_by_name(name)
            owner.add_relation(Relation(owner, [Feature('Nw', [])], 0, 1))
        em = (sh._replace_feature(root, list(path), lambda g: (g[0], g[1] + ((0, 1, (sh.F('Nw'),)),), g[2], g[3], g[4], g[5])), model[1])
        out.append(('add_relation %s' % f[0], newrel, em))

        def retype(fm, name=f[0]):
            from flamapy.metamodels.fm_metamodel.models import Cardinality, FeatureType
            feat = fm.get_feature_by_name(name)
            feat.feature_type = FeatureType.INTEGER
            feat.feature_cardinality = Cardinality(0, 3)
        em = (sh._replace_feature(root, list(path), lambda g: (g[0], g[1], g[2], 'Integer', (0, 3), g[5])), model[1])
        out.append(('retype %s' % f[0], retype, em))
    # move a leaf under another feature (detach, then attach with add_relation)
    pm = sh.parent_map(model)
    for path, f in sh._paths(root):
        if path and not f[1]:
            base = sh._replace_feature(root, list(path), lambda _g: None)
            for path2, g in sh._paths(base):
                if g[0] == pm[f[0]]:
                    continue

                for card in ((0, 1), (1, 1)):
                    def move(fm, leaf=f[0], target=g[0], card=card):
                        from flamapy.metamodels.fm_metamodel.models import Relation
                        obj = fm.get_feature_by_name(leaf)
                        old_parent = obj.get_parent()
                        for rel in list(old_parent.get_relations()):
                            if any(c is obj for c in rel.children):
                                rel.children.remove(obj)
                                if not rel.children:
                                    old_parent.relations.remove(rel)
                                else:
                                    if rel.card_max == -1:
                                        rel.card_min = min(rel.card_min, len(rel.children))
                                    else:
                                        rel.card_max = min(rel.card_max, len(rel.children))
                                        rel.card_min = min(rel.card_min, rel.card_max)
                        newp = fm.get_feature_by_name(target)
                        newp.add_relation(Relation(newp, [obj], card[0], card[1]))
                    em = (sh._replace_feature(base, list(path2), lambda h, leafsh=f, card=card: (h[0], h[1] + ((card[0], card[1], (leafsh,)),), h[2], h[3], h[4], h[5])), model[1])
                    out.append(('move %s under %s as [%d,%d]' % (f[0], g[0], card[0], card[1]), move, em))
    # move an inner feature together with its sub-tree under a feature that is not one of its descendants
    for path, f in sh._paths(root):
        if path and f[1]:
            inside = set(x[0] for x in sh.features(f))
            base = sh._replace_feature(root, list(path), lambda _g: None)
            for path2, g in sh._paths(base):
                if g[0] == pm[f[0]] or g[0] in inside:
                    continue

                def move_tree(fm, top=f[0], target=g[0]):
                    from flamapy.metamodels.fm_metamodel.models import Relation
                    obj = fm.get_feature_by_name(top)
                    old_parent = obj.get_parent()
                    for rel in list(old_parent.get_relations()):
                        if any(c is obj for c in rel.children):
                            rel.children.remove(obj)
                            if not rel.children:
                                old_parent.relations.remove(rel)
                            elif rel.card_max == -1:
                                rel.card_min = min(rel.card_min, len(rel.children))
                            else:
                                rel.card_max = min(rel.card_max, len(rel.children))
                                rel.card_min = min(rel.card_min, rel.card_max)
                    newp = fm.get_feature_by_name(target)
                    newp.add_relation(Relation(newp, [obj], 0, 1))
                em = (sh._replace_feature(base, list(path2), lambda h, sub=f: (h[0], h[1] + ((0, 1, (sub,)),), h[2], h[3], h[4], h[5])), model[1])
                out.append(('move sub-tree %s under %s' % (f[0], g[0]), move_tree, em))
    # replace a relation object by a new one of another cardinality over the same children (same number of relations)
    for path, f in sh._paths(root):
        for ri, (a0, b0, kids) in enumerate(f[1]):
            for (a, b) in sp.cards_for(len(kids)):
                if (a, b) == (a0, b0) or (a, b) == (0, 0):
                    continue

                def swap(fm, name=f[0], ri=ri, a=a, b=b):
                    from flamapy.metamodels.fm_metamodel.models import Relation
                    owner = fm.get_feature_by_name(name)
                    old = owner.get_relations()[ri]
                    new = Relation(owner, list(old.children), a, b)
                    owner.relations.remove(old)
                    owner.add_relation(new)
                    owner.relations.insert(ri, owner.relations.pop())
                em = (sh._replace_feature(root, list(path), lambda g, ri=ri, a=a, b=b: (g[0], g[1][:ri] + ((a, b, g[1][ri][2]),) + g[1][ri + 1:], g[2], g[3], g[4], g[5])), model[1])
                out.append(('replace relation %s#%d by a new [%d,%d] relation' % (f[0], ri, a, b), swap, em))
                break
    # remove a leaf that no constraint mentions (the relation shrinks or disappears)
    mentioned = set(n for _c, t in model[1] for n in sh.tree_names(t))
    for path, f in sh._paths(root):
        if path and not f[1] and f[0] not in mentioned:
            def remove(fm, leaf=f[0]):
                obj = fm.get_feature_by_name(leaf)
                old_parent = obj.get_parent()
                for rel in list(old_parent.get_relations()):
                    if any(c is obj for c in rel.children):
                        rel.children.remove(obj)
                        if not rel.children:
                            old_parent.relations.remove(rel)
                        elif rel.card_max == -1:
                            rel.card_min = min(rel.card_min, len(rel.children))
                        else:
                            rel.card_max = min(rel.card_max, len(rel.children))
                            rel.card_min = min(rel.card_min, rel.card_max)
                obj.parent = None
            out.append(('remove %s' % f[0], remove, (sh._replace_feature(root, list(path), lambda _g: None), model[1])))
    out.extend(ctc_edits(model))
    # a second FeatureModel over a sub-tree of this one (shares the Feature objects): constructing
    # it must leave this model as it is
    for path, f in sh._paths(root):
        if path:
            def view(fm, name=f[0]):
                from flamapy.metamodels.fm_metamodel.models import FeatureModel
                FeatureModel(fm.get_feature_by_name(name))
            out.append(('construct a FeatureModel on the sub-tree of %s' % f[0], view, model))
    return out


def _tree_paths(tree, prefix=(), depth=3):
    yield prefix, tree
    if isinstance(tree, tuple) and depth > 0:
        for side, sub in (('L', tree[1]), ('R', tree[2])):
            if sub is not None:
                yield from _tree_paths(sub, prefix + (side,), depth - 1)


def _tree_replace(tree, path, new):
    if not path:
        return new
    op, left, right = tree
    if path[0] == 'L':
        return (op, _tree_replace(left, path[1:], new), right)
    return (op, left, _tree_replace(right, path[1:], new))


def _node_at(fm, ci, path):
    n = fm.ctcs[ci].ast.root
    for side in path:
        n = n.left if side == 'L' else n.right
    return n


def ctc_edits(model):
    """In-place edits of the Node objects of the model's constraints (the Constraint and AST objects
    stay the same): a leaf gets another feature name, a binary operator is exchanged, an operand is
    replaced by a fresh leaf."""
    out = []
    if bd.SHARE['on']:
        return out      # shared Node objects: an edit of one occurrence would change the others too
    names = sh.names(model)
    for ci, (cname, tree) in enumerate(model[1]):
        if not all(o in sh.LOGICAL for o in sh.tree_ops(tree)):
            continue
        for path, sub in _tree_paths(tree):
            if isinstance(sub, str):
                others = [n for n in names if n != sub]
                if not others:
                    continue
                new = others[-1]

                def relabel(fm, ci=ci, path=path, new=new):
                    _node_at(fm, ci, path).data = new
                out.append(('constraint %s: leaf %s at %s becomes %s' % (cname, sub, ''.join(path) or 'root', new), relabel,
                            (model[0], model[1][:ci] + ((cname, _tree_replace(tree, path, new)),) + model[1][ci + 1:])))
            elif isinstance(sub, tuple) and sub[0] in sh.BINARY_LOGICAL:
                newop = 'OR' if sub[0] != 'OR' else 'AND'

                def reop(fm, ci=ci, path=path, newop=newop):
                    from flamapy.core.models.ast import ASTOperation
                    _node_at(fm, ci, path).data = ASTOperation[newop]
                out.append(('constraint %s: operator %s at %s becomes %s' % (cname, sub[0], ''.join(path) or 'root', newop), reop,
                            (model[0], model[1][:ci] + ((cname, _tree_replace(tree, path, (newop, sub[1], sub[2]))),) + model[1][ci + 1:])))
                if path:
                    leaf = names[0]

                    def prune(fm, ci=ci, path=path, leaf=leaf):
                        from flamapy.core.models.ast import Node
                        parent = _node_at(fm, ci, path[:-1])
                        if path[-1] == 'L':
                            parent.left = Node(leaf)
                        else:
                            parent.right = Node(leaf)
                    out.append(('constraint %s: operand at %s replaced by leaf %s' % (cname, ''.join(path), leaf), prune,
                                (model[0], model[1][:ci] + ((cname, _tree_replace(tree, path, leaf)),) + model[1][ci + 1:])))
    return out


def _check_edits(model):
    fails = []
    for (what, edit, em) in inplace_edits(model):
        fm, bf = cm.built(model)
        if bf:
            return bf
        warm = _oracle(fm, model, 'A')          # every query has been asked once
        if any(f.clause != 'relation-class-count' for f in warm):
            return warm
        try:
            cm.checked_edit(fm, edit, model, em, what)
        except cm.ModelMutatedByLibrary as exc:
            return [Fail('queries-mutate-the-model', str(exc)[:300])]
        engine.tick()
        after = [f for f in _oracle(fm, em, 'A') if f.clause != 'relation-class-count' or
                 not any(sem.kind(a, b, len(k)) is None for (_p, a, b, k) in sh.relations(em))]
        if not after and em[1]:
            # differential: the constraint-kind listings of the edited object and of a freshly built
            # model of the same (edited) shadow must select the same constraints
            fresh = bd.build(em)
            for meth in ('get_simple_constraints', 'get_complex_constraints', 'get_pseudocomplex_constraints',
                         'get_strictcomplex_constraints', 'get_requires_constraints', 'get_excludes_constraints'):
                try:
                    a = [i for i, c in enumerate(fm.ctcs) if any(g is c for g in getattr(fm, meth)())]
                    b = [i for i, c in enumerate(fresh.ctcs) if any(g is c for g in getattr(fresh, meth)())]
                except Exception:  # noqa: BLE001   (raising listings are reported by the oracle above)
                    continue
                engine.tick(2)
                if a != b:
                    after.append(Fail('model.' + meth, {'edited object': a, 'fresh model of the same content': b,
                                                        'ctcs': [sh.tree_str(t) for _n, t in em[1]]}))
                    break
        for f in after:
            f.clause = 'after-inplace-edit:' + f.clause
            f.detail = {'edit': what, 'info': f.detail}
        if after:
            fails.extend(after)
            break
    return fails


def _check_reader(case):
    import os
    if case[0] == 'RX':
        from flamapy.metamodels.fm_metamodel.transformations import XMLReader
        from .c16 import CORPUS
        try:
            fm = XMLReader(os.path.join(CORPUS, case[1])).transform()
        except Exception:  # noqa: BLE001
            return []
    else:
        from . import c01, c05, c06, c07, c08
        fmt = {'uvl': c01, 'json': c05, 'afm': c06, 'featureide': c07, 'glencoe': c08}[case[1]].FMT
        fm0, bf = cm.built(case[2])
        if bf:
            return bf
        path = engine.tmppath('c03.' + fmt.ext)
        try:
            fmt.write(fm0, path)
            fm = fmt.read(path)
        except Exception:  # noqa: BLE001    (a failing round trip is C01/C05-C08's subject)
            return []
        finally:
            try:
                os.remove(path)
            except OSError:
                pass
    engine.tick(2)
    try:
        shadow = bd.observe(fm)
        sh.names(shadow)
    except Exception as exc:  # noqa: BLE001
        return [Fail('reader-model-not-observable:%s' % type(exc).__name__, str(exc)[:150])]
    fails = [f for f in _oracle(fm, shadow, 'reader') if f.clause != 'relation-class-count']
    for f in fails:
        f.clause = 'reader-model:' + f.clause
    return fails


def check(case):
    if case[0] in ('R', 'RX'):
        return _check_reader(case)
    model = case[1]
    if case[0] == 'E':
        return _check_edits(model)
    fails = []
    for route in ('A', 'B'):
        fm, bf = cm.built(model, route)
        if bf:
            for f in bf:
                f.detail = {'route': route, 'info': f.detail}
            return bf
        try:
            fails.extend(_oracle(fm, model, route))
        except Exception as exc:  # noqa: BLE001
            import traceback
            fails.append(Fail('raises:%s' % type(exc).__name__, {'route': route, 'tb': traceback.format_exc()[-600:]}))
        if fails:
            break
    return fails


def outcome(case):
    if case[0] in ('R', 'RX'):
        return case[0] + ':' + str(case[1])[:12]
    ks = sorted(set(str(sem.kind(a, b, len(k))) for (_p, a, b, k) in sh.relations(case[1])))
    return case[0] + ':' + ','.join(ks)
