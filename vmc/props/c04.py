"""C04 - UVL reader yields the model the document denotes, or fails loudly."""
from __future__ import annotations

import hashlib
import re

from flamapy.metamodels.fm_metamodel.transformations import UVLReader

from .. import build as bd
from .. import engine, sem
from .. import shadow as sh
from .. import space as sp
from ..engine import Fail
from ..lang import uvl
from . import common as cm
from . import rt

ID = 'C04'
OPS = ('NOT', 'AND', 'OR', 'IMPLIES', 'EQUIVALENCE')


class _Fmt(rt.Format):
    name = 'uvl-ref'
    fields = ('abstract', 'ftype', 'fcard', 'attrs')
    star_ok = True


FMT = _Fmt()
F, R, M = sh.F, sh.R, sh.M
fz = sh.freeze


def rich_models():
    m1 = M(F('Fa', [R(1, 1, [F('Bb')]), R(1, 1, [F('or', ftype='Integer', fcard=(1, -1))]), R(0, 1, [F('Dc')]),
                    R(1, 2, [F('X1'), F('X2')]), R(2, 3, [F('Y1'), F('Y2'), F('Y3')])], abstract=True,
             attrs=[('a', fz(1)), ('b', fz(None)), ('c', fz({'k': [1, 'x']}))]),
           [('c1', ('IMPLIES', ('AND', 'Bb', ('OR', 'Dc', 'X1')), ('NOT', ('EQUIVALENCE', 'X2', 'Bb'), None))),
            ('c2', ('GREATER', ('ADD', 'Bb.att', ('MUL', 3, 'Dc.att')), ('SUM', 'att', 'Fa'))),
            ('c3', ('GREATER_EQUALS', 'Fa.a', 0))])
    m2 = M(F('Root', [R(1, 1, [F('A b', [R(1, 1, [F('C1'), F('C2'), F('C3')])], attrs=[('cost', fz(2.5)), ('on', fz(True))])]),
                      R(0, 1, [F('Dd', ftype='String')]), R(0, 1, [F('Ee', ftype='Real', fcard=(0, 3))]),
                      R(1, -1, [F('G1'), F('G2')])]),
           [('c1', ('EQUIVALENCE', ('IMPLIES', 'C1', 'Dd'), ('OR', 'C2', ('AND', 'C3', ('NOT', 'Ee', None))))),
            ('c2', ('NOT_EQUALS', 'Dd', "'txt'")), ('c3', ('LOWER_EQUALS', ('AVG', 'cost', None), 10))])
    m3 = M(F('Fa', [R(0, 1, [F('Bb')]), R(0, 1, [F('Dc')]), R(1, 1, [F('Ad')]), R(1, 1, [F('Ee', [R(0, 1, [F('Gg'), F('Hh')])])])]),
           [('c1', ('OR', ('AND', 'Bb', 'Dc'), ('AND', ('NOT', 'Bb', None), ('IMPLIES', 'Dc', 'Ad')))),
            ('c2', ('IMPLIES', ('IMPLIES', 'Bb', 'Dc'), 'Gg')), ('c3', ('IMPLIES', 'Bb', ('IMPLIES', 'Dc', 'Hh'))),
            ('c4', ('AND', ('AND', 'Bb', 'Dc'), ('OR', 'Gg', ('OR', 'Hh', 'Ad'))))])
    m4 = M(F('ñu', [R(2, 2, [F('日本'), F('Ünï'), F('Zz')]), R(0, 1, [F('features')])],
             attrs=[('lst', fz([1, [2, 3], 'x'])), ('m', fz({'a b': {'c': -3}})), ('neg', fz(-0.25))]),
           [('c1', ('AND', 'features', ('NOT', ('OR', '日本', 'Zz'), None)))])
    m5 = M(F('Fa'))
    m6 = M(F('Fa', [R(1, 1, [F('Bb', attrs=[('att', fz(3))])]), R(1, 1, [F('Dc', attrs=[('att', fz(4))])])]),
           [('c1', ('EQUALS', ('SUB', ('DIV', 'Bb.att', 2), 1), ('FLOOR', 'Dc.att', None))),
            ('c2', ('AND', 'Bb', ('GREATER_EQUALS', ('CEIL', 'Bb.att', None), ('LEN', 'Dc', None)))),
            ('c3', ('LOWER', ('SUM', 'att', None), ('AVG', 'att', 'Fa'))), ('c4', ('NOT', ('GREATER', 'Bb.att', 3), None))])
    m7 = M(F('Fa', [R(1, 1, [F('Bb')]), R(0, 1, [F('Dc')]), R(1, 1, [F('Ad')]), R(0, 1, [F('Ee')]), R(0, 1, [F('Gg')])]))
    m8 = M(F('Fa', [R(0, 0, [F('Bb')]), R(0, 2, [F('Dc'), F('Ad')]), R(3, -1, [F('E1'), F('E2'), F('E3')])], fcard=(2, 2)))
    return [m1, m2, m3, m4, m5, m6, m7, m8]


def alphabet_models(tier):
    out = []
    n = 3 if tier == 'quick' else 4
    for m in sp.structures_upto(n, star=True):
        out.append(m)
    base = M(F('Fa', [R(1, 1, [F('Bb')]), R(0, 1, [F('Dc'), F('Ad')])]))
    for i in range(4):
        for t in rt.FTYPES:
            out.append(rt.deviation(base, i, ('ftype', t)))
        for c in rt.FCARDS:
            out.append(rt.deviation(base, i, ('fcard', c)))
        out.append(rt.deviation(base, i, ('abstract', None)))
        for j, v in enumerate([None, True, False, 0, 7, -3, 2.5, -0.25, 100.0, 'x', 'hello world', 'ünï', [], [1, 'a'],
                               [True, [2, 3]], {'k': 1}, {'k': {'j': 'q'}}, {'a b': 2.5}, {'flag': None},
                               {'abstract': True, 'owner': 'core'}, {'meta': {'abstract': True}}, [{'abstract': True, 'k': 1}],
                               {'abstract': 'yes'}, {'Integer': 1, 'cardinality': 2, 'features': 'x'}]):
            out.append(rt.deviation(base, i, ('attr', ('att%d' % j, v))))
        for nm in ('a b', 'or', '1ab', 'ñu', 'a-b', 'true', 'Cafe\u0301', '\u212b', '\u2126', 'a\u2028b', 'a\x0bb', 'a\x0cb', 'a\x85b', 'a\x1cb',
                   'a\u2029b', '10', 'a  b'):
            out.append(rt.deviation(base, i, ('name', nm)))
        for j, v in enumerate(['a\u2028b', 'a\x0cb', 'a\x85b', 'a\x1db', 'a\x0bb', 'Cafe\u0301', '\u212b', 'a\tb', 'a  b']):
            out.append(rt.deviation(base, i, ('attr', ('str%d' % j, v))))
    kids12 = [F('W%d' % i) for i in range(1, 13)]
    out.append(M(F('Rt', [R(2, 10, kids12)])))
    out.append(M(F('Rt', [R(10, 12, kids12), R(1, 1, [F('Q1', fcard=(1, 12))]), R(0, 1, [F('Q2', fcard=(10, -1))])])))
    out.append(M(F('Rt', [R(12, -1, kids12)], fcard=(3, 25))))
    for j, v in enumerate([2 ** 53 + 1, 2 ** 63 - 1, -9007199254740993, 2 ** 31, 12345678901234567890, 0.30000000000000004, 123456.789,
                           [2 ** 53 + 1, -2 ** 63 - 1], {'id': 2 ** 63 - 1}]):
        out.append(rt.deviation(base, 1, ('attr', ('big%d' % j, v))))
    out.append(cm.on_carrier([('GREATER', 'x.att', 2 ** 53 + 1)]))
    for lit in ("'say \"hi\"'", "'a\u2028b'", "'a\x0cb'", "'Cafe\u0301'", "'a  b'"):
        out.append(cm.on_carrier([('EQUALS', 'x.name', lit)]))
    out.append(cm.on_carrier([('EQUALS', ('ADD', 'x.att', 9007199254740993), -2 ** 63 + 1)]))
    for m in rt.collision_models():
        if not any('"' in n or '.' in n for n in sh.names(m)):
            out.append((m[0], tuple((n, ('IMPLIES', t[1], ('NOT', t[2], None)) if t[0] == 'EXCLUDES' else ('IMPLIES', t[1], t[2])) for n, t in m[1])))
    out.append(cm.on_carrier([('IMPLIES', 'x', 'y'), ('IMPLIES', 'x', 'y'), ('AND', 'x', 'z'), ('IMPLIES', 'x', 'y')]))
    trees = list(sp.trees(1, ['x', 'y', 'z'], OPS))
    k2 = sp.trees(2, ['x', 'y', 'z'], OPS)
    step = max(1, len(k2) // (60 if tier == 'quick' else 400))
    trees += k2[::step]
    trees += [t for t in cm.arith_trees() if not _has_requires(t)]
    trees += list(cm.onearg_aggregate_trees())
    for t in trees:
        out.append(cm.on_carrier([t]))
    return out


def _has_requires(t):
    return any(o in ('REQUIRES', 'EXCLUDES', 'XOR') for o in sh.tree_ops(t))


def _key(ch):
    return tuple(ch[k] for k in uvl.BINARY_CHOICES) + (uvl.INDENTS.index(ch['indent']),)


def _unkey(k):
    ch = dict(zip(uvl.BINARY_CHOICES, k[:-1]))
    ch['indent'] = uvl.INDENTS[k[-1]]
    return ch


NEG_CLASSES = ('drop-paren', 'drop-bracket', 'drop-brace', 'stray-operator', 'no-features-keyword',
               'feature-without-group', 'dollar', 'leading-underscore')


def negatives(doc):
    """(class, invalid document) pairs made invalid by construction."""
    out = []
    lines = doc.split('\n')
    ci = next((i for i, l in enumerate(lines) if l.startswith('constraints')), None)
    if ci is not None:
        for i in range(ci + 1, len(lines)):
            code = lines[i].split(' //')[0]
            if ')' in code:
                j = lines[i].rindex(')', 0, len(code))
                out.append(('drop-paren', '\n'.join(lines[:i] + [lines[i][:j] + lines[i][j + 1:]] + lines[i + 1:])))
                break
        for i in range(ci + 1, len(lines)):
            code = lines[i].split(' //')[0]
            if code.strip():
                out.append(('stray-operator', '\n'.join(lines[:i] + [code + ' &' + lines[i][len(code):]] + lines[i + 1:])))
                break
    fi = next(i for i, l in enumerate(lines) if l.startswith('features'))
    end = ci if ci is not None else len(lines)
    for i in range(fi + 1, end):
        code = lines[i].split(' //')[0]
        if ']' in code and 'drop-bracket' not in [c for c, _d in out]:
            j = code.rindex(']')
            out.append(('drop-bracket', '\n'.join(lines[:i] + [lines[i][:j] + lines[i][j + 1:]] + lines[i + 1:])))
        if '}' in code and 'drop-brace' not in [c for c, _d in out]:
            j = code.rindex('}')
            out.append(('drop-brace', '\n'.join(lines[:i] + [lines[i][:j] + lines[i][j + 1:]] + lines[i + 1:])))
    out.append(('no-features-keyword', '\n'.join(lines[:fi] + lines[fi + 1:])))
    # a feature line directly under a feature (two levels deeper than it, no group keyword)
    root_line = lines[fi + 1]
    indent = root_line[:len(root_line) - len(root_line.lstrip())]
    out.append(('feature-without-group', '\n'.join(lines[:fi + 2] + [indent * 3 + 'Zz9'] + lines[fi + 2:])))
    m = re.match(r'^(\s*)([A-Za-z][A-Za-z0-9]*)(.*)$', root_line)
    if m and m.group(2) not in ('Integer', 'String', 'Real', 'Boolean'):
        out.append(('dollar', '\n'.join(lines[:fi + 1] + [m.group(1) + m.group(2) + '$' + m.group(3)] + lines[fi + 2:])))
        out.append(('leading-underscore', '\n'.join(lines[:fi + 1] + [m.group(1) + '_' + m.group(2) + m.group(3)] + lines[fi + 2:])))
    return out


def cases(tier, seed):
    seen = set()
    rich = rich_models()
    allch = [_key(c) for c in uvl.all_choices()]
    cover = [_key(c) for c in uvl.covering_choices()]

    def fresh(model, k):
        h = hashlib.sha1(uvl.emit(model, _unkey(k)).encode('utf8')).digest()
        if h in seen:
            return False
        seen.add(h)
        return True
    for i, m in enumerate(rich):
        for k in allch:
            if fresh(m, k):
                yield ('P', m, k)
    alpha = alphabet_models(tier)
    for m in alpha:
        for k in (cover if tier == 'quick' else allch):
            if fresh(m, k):
                yield ('P', m, k)
    for m in rich + alpha[::7]:
        for k in cover:
            doc = uvl.emit(m, _unkey(k))
            classes = [c for c, _d in negatives(doc)]
            for c in classes:
                yield ('N', m, k, c)


def plan(tier):
    return {
        'chunk': 60,
        'bounds': '8 rich reference models x all 768 combinations of surface choices; the reference-model alphabet (S<=%d incl. '
                  '[n], [n..m], [n..*]; types, feature cardinalities, abstract, 19 attribute value kinds, quoted/keyword/non-ASCII '
                  'names at every position; constraints: K_1 over ! & | => <=>, a subset of K_2, comparisons, parenthesised '
                  'arithmetic, 1- and 2-argument aggregates, len/floor/ceil) x %s; negatives: 8 classes of documents invalid by '
                  'construction' % (3 if tier == 'quick' else 4, '13 covering combinations' if tier == 'quick' else 'all 768 combinations'),
        'rule': 'documents are emitted by vmc.lang.uvl from the reference model, never by the library writer; duplicates '
                '(identical text) are evaluated once; positive: the reader result must equal the reference model (names, tree, '
                'flags, types, cardinalities, attribute values type-strict, constraints in order: logical by truth table, '
                'arithmetic structurally); negative: the reader must raise; non-trivial = all',
        'assumptions': ['arithmetic is emitted fully parenthesised (the generated parser ranks + - above * /)',
                        'UVL has no requires/excludes/xor syntax', 'blank lines are only used before the constraints section'],
    }


def describe(case):
    bits = ''.join('1' if b else '0' for b in case[2][:-1]) + str(case[2][-1])
    s = '%s:%s | choices=%s' % (case[0], sh.model_str(case[1]), bits)
    if case[0] == 'N':
        s += ' | ' + case[3]
    return s


def reduce(case):
    k = case[2]
    for i in range(len(k)):
        if k[i]:
            k2 = k[:i] + ((False,) if i < len(k) - 1 else (0,)) + k[i + 1:]
            yield (case[0], case[1], k2) + tuple(case[3:])
    for m in sh.reductions(case[1], sp.NAME_POOL):
        if not any(_has_requires(t) for _n, t in m[1]):
            if case[0] == 'N':
                try:
                    classes = [c for c, _d in negatives(uvl.emit(m, _unkey(k)))]
                except Exception:  # noqa: BLE001
                    continue
                if case[3] not in classes:
                    continue
            yield (case[0], m, k) + tuple(case[3:])


def nontrivial(case):
    return True


def selftest():
    sem.selftest()
    uvl.selftest()


def check(case):
    kind, model, k = case[0], case[1], case[2]
    ch = _unkey(k)
    doc = uvl.emit(model, ch)
    path = engine.tmppath('c04.uvl')
    if kind == 'N':
        cand = [d for c, d in negatives(doc) if c == case[3]]
        if not cand:
            return []
        with open(path, 'w', encoding='utf8') as fh:
            fh.write(cand[0])
        rd = UVLReader(path)
        try:
            fm = rd.transform()
            engine.tick()
        except Exception:  # noqa: BLE001
            # the same reader object asked again: still an error; after the file has been repaired: the model
            try:
                fm = rd.transform()
                engine.tick()
                return [Fail('invalid-document-accepted-at-second-attempt:' + case[3],
                             {'doc': cand[0][:300], 'model': cm._safe_str(bd.observe(fm))})]
            except Exception:  # noqa: BLE001
                pass
            with open(path, 'w', encoding='utf8') as fh:
                fh.write(doc)
            try:
                ob = bd.observe(rd.transform())
                engine.tick()
            except Exception as exc:  # noqa: BLE001
                return [Fail('reader-reuse:repaired-document-rejected:%s' % type(exc).__name__, {'doc': doc[:300], 'msg': str(exc)[:100]})]
            out = []
            rt.compare(FMT, model, ob, out)
            for f in out:
                f.clause = 'reader-reuse:after-failed-transform:' + f.clause
                f.detail = {'doc': doc[:300], 'info': f.detail}
            if not out:
                engine.validated()
            return out
        return [Fail('invalid-document-accepted:' + case[3], {'doc': cand[0][:300], 'model': cm._safe_str(bd.observe(fm))})]
    with open(path, 'w', encoding='utf8') as fh:
        fh.write(doc)
    try:
        rd = UVLReader(path)
        fm = rd.transform()
        engine.tick()
        ob = bd.observe(fm)
    except Exception as exc:  # noqa: BLE001
        return [Fail('valid-document-rejected:%s' % type(exc).__name__, {'doc': doc[:400], 'msg': str(exc)[:100]})]
    out = []
    rt.compare(FMT, model, ob, out)
    for f in out:
        f.detail = {'doc': doc[:300], 'info': f.detail}
    if not out:
        engine.validated()
        out = _reader_reuse(rd, path, fm, ob, model)
    return out


OTHER = M(F('Zq', [R(0, 1, [F('Yq')]), R(1, 1, [F('Xq', attrs=[('w', fz(2))])])]), [('k9', ('IMPLIES', 'Yq', 'Xq'))])


def _reader_reuse(rd, path, fm, ob, model):
    """The same reader object asked again for the same file, and after the file has been replaced."""
    try:
        again = bd.observe(rd.transform())
        engine.tick()
        if again != ob:
            return [Fail('reader-reuse:second-transform-differs', {'first': cm._safe_str(ob), 'second': cm._safe_str(again)})]
        if bd.observe(fm) != ob:
            return [Fail('reader-reuse:earlier-result-changed', {'was': cm._safe_str(ob), 'now': cm._safe_str(bd.observe(fm))})]
        if model[0][0] == OTHER[0][0]:
            return []
        with open(path, 'w', encoding='utf8') as fh:
            fh.write(uvl.emit(OTHER, uvl.covering_choices()[0]))
        third = bd.observe(rd.transform())
        engine.tick()
    except Exception as exc:  # noqa: BLE001
        return [Fail('reader-reuse:raises:%s' % type(exc).__name__, str(exc)[:200])]
    out = []
    rt.compare(FMT, OTHER, third, out)
    for f in out:
        f.clause = 'reader-reuse:rewritten-file:' + f.clause
    return out


def outcome(case):
    return case[0] + (':' + case[3] if case[0] == 'N' else '')
