"""C18 - constraint classification and splitting are semantically sound."""
from __future__ import annotations

from flamapy.metamodels.fm_metamodel.models import Constraint
from flamapy.metamodels.fm_metamodel.models.feature_model import (
    left_right_features_from_simple_constraint, split_constraint)

from .. import build as bd
from .. import engine, sem
from .. import shadow as sh
from .. import space as sp
from ..engine import Fail
from . import common as cm
from .c03 import _ref_ctc_kinds

ID = 'C18'


def _spines(names):
    reps = list(cm.k2_subset(tuple(names)))[::3]
    x = names[0]
    out = []
    for op in sh.BINARY_LOGICAL:
        for t in reps:
            out.append((op, t, x))
            out.append((op, x, t))
    for t in reps:
        out.append(('NOT', t, None))
    return out


def cases(tier, seed):
    names = ['x', 'y'] if tier == 'quick' else ['x', 'y', 'z']
    for t in sp.trees(2, names):
        yield ('C', t)
    if tier == 'quick':
        for t in cm.k2_subset():
            yield ('C', t)
    for t in _spines(['x', 'y', 'z']):
        yield ('C', t)
    # names that differ only in letter case
    case_trees = sp.trees(2, ['x', 'X']) if tier == 'thorough' else sp.trees(2, ['x', 'X'])[::4]
    for t in case_trees:
        yield ('C', t)
    for t in cm.k2_subset(('x', 'X', 'y')):
        yield ('C', t)
    from . import families
    for t in families.deep_trees():
        yield ('C', t)
    # left-deep chains as the readers build them from n-ary rules (passed as specs: deep tuples cannot be pickled)
    for op in ('AND', 'OR'):
        yield ('CL', op, 300)
    # conjunctions of n simple parts (256 / 257 / 300: more parts than CPython's cached small integers)
    for n in (255, 256, 257, 258, 300):
        yield ('CP', n)
    # a disjunction of n conjunctions in negative position (its CNF has n short clauses; in positive
    # position it would have 2^n, which is not what this family is about)
    for n in (8, 16, 20, 24, 40):
        for shape in ('not', 'implies', 'requires', 'excludes'):
            yield ('CN', n, shape)
    for t in list(cm.arith_trees()) + list(cm.onearg_aggregate_trees()):
        yield ('C', t)
    # feature names of every class (digits only, keywords, quotes, blanks ...) as operands
    from . import rt
    reps = [('REQUIRES', 'x', 'y'), ('OR', ('NOT', 'y', None), 'x'), ('EXCLUDES', 'y', 'x'), ('AND', 'x', ('OR', 'y', 'z')),
            ('IMPLIES', ('AND', 'x', 'y'), ('NOT', 'x', None)), 'x', ('NOT', 'x', None), ('EQUIVALENCE', 'x', 'y'), ('XOR', 'y', 'x'),
            ('OR', 'x', 'y'), ('IMPLIES', ('NOT', 'y', None), 'x')]
    for _cls, members in rt.NAME_CLASSES.items():
        for nm in members:
            if nm.startswith("'"):
                continue        # a leading apostrophe marks a string literal in a constraint expression
            for t in reps:
                yield ('C', cm.map_names(t, {'x': nm}))
    # expression graphs with shared sub-expression objects
    for t in cm.dag_trees():
        yield ('CD', t)


def plan(tier):
    return {
        'chunk': 250,
        'bounds': 'all logical trees of depth<=2 over %s names (8 operators) + depth-3 spines + arithmetic/aggregate alphabet'
                  % ('2 (plus a 3-name subset)' if tier == 'quick' else '3'),
        'rule': 'every constraint expression tree up to the bound is built as a real Constraint and every predicate, '
                'left_right_features_from_simple_constraint and split_constraint are evaluated; equivalences decided by '
                'complete truth tables; non-trivial = depth >= 1',
        'assumptions': ['truth-table evaluator vmc.sem.ev'],
        'coverage_extra': {'closed_form_tree_count': sp.count_trees(2, 2 if tier == 'quick' else 3)},
    }


def _parts_tree(n):
    x, y, z = 'x', 'y', 'z'
    parts = [('REQUIRES', x, y), ('EXCLUDES', y, z), ('IMPLIES', z, x), ('OR', ('NOT', x, None), z), ('IMPLIES', y, ('NOT', x, None))]
    # balanced, so that the tree stays shallow
    level = [parts[i % len(parts)] for i in range(n)]
    while len(level) > 1:
        nxt = [('AND', level[i], level[i + 1]) for i in range(0, len(level) - 1, 2)]
        if len(level) % 2:
            nxt.append(level[-1])
        level = nxt
    return level[0]


def _neg_dnf_tree(n, shape):
    x, y, z = 'x', 'y', 'z'
    pairs = [('AND', x, y), ('AND', y, z), ('AND', z, x), ('AND', x, ('NOT', y, None))]
    t = pairs[0]
    for i in range(1, n):
        t = ('OR', t, pairs[i % len(pairs)])
    if shape == 'not':
        return ('NOT', t, None)
    return ({'implies': 'IMPLIES', 'requires': 'REQUIRES', 'excludes': 'EXCLUDES'}[shape], t, z)


def _case_tree(case):
    if case[0] == 'CL':
        return _chain_tree(case[1], case[2])
    if case[0] == 'CP':
        return _parts_tree(case[1])
    if case[0] == 'CN':
        return _neg_dnf_tree(case[1], case[2])
    return case[1]


def _chain_tree(op, n):
    names = ('x', 'y', 'z')
    t = names[0]
    for i in range(1, n):
        t = (op, t, names[i % 3] if i % 7 else ('NOT', names[i % 3], None))
    return t


def describe(case):
    if case[0] == 'CL':
        return 'CL:%s x %d' % (case[1], case[2])
    if case[0] == 'CP':
        return 'CP:balanced conjunction of %d simple parts' % case[1]
    if case[0] == 'CN':
        return 'CN:%s over a disjunction of %d conjunctions' % (case[2], case[1])
    return case[0] + ':' + sh.tree_str(case[1])


def reduce(case):
    if case[0] == 'CL':
        if case[2] > 20:
            yield ('CL', case[1], case[2] // 2)
        return
    if case[0] == 'CP':
        if case[1] > 2:
            yield ('CP', case[1] - 1)
            yield ('CP', case[1] // 2)
        return
    if case[0] == 'CN':
        if case[1] > 2:
            yield ('CN', case[1] - 1, case[2])
            yield ('CN', case[1] // 2, case[2])
        return
    seen = set()
    present = sh.tree_names(case[1])
    special = [n for n in present if n not in ('x', 'y', 'z', 'X')]
    keepcase = 'X' in present or bool(special)
    pool = tuple(dict.fromkeys(special + ['x', 'y'])) if special else (('x', 'X', 'y') if keepcase else ('x', 'y', 'z'))
    for t in sh.tree_reductions(case[1], pool):
        t = t if keepcase else sh.tree_normalize_vars(t)
        if t not in seen:
            seen.add(t)
            yield (case[0], t)


def normalize(case):
    if case[0] in ('CL', 'CP', 'CN'):
        return case
    if any(n not in ('x', 'y', 'z') for n in sh.tree_names(case[1])):
        return case
    return (case[0], sh.tree_normalize_vars(case[1]))


def nontrivial(case):
    return case[0] in ('CL', 'CP', 'CN') or isinstance(case[1], tuple)


def selftest():
    sem.selftest()


def _snapshot(root):
    nodes = []
    ids = []

    def rec(n):
        if n is None:
            return None
        nodes.append(n)
        ids.append((id(n), id(n.left) if n.left is not None else None,
                    id(n.right) if n.right is not None else None, repr(n.data)))
        rec(n.left)
        rec(n.right)
    rec(root)
    return nodes, ids


PREDS = ('is_logical_constraint', 'is_arithmetic_constraint', 'is_aggregation_constraint',
         'is_single_feature_constraint', 'is_simple_constraint', 'is_complex_constraint',
         'is_requires_constraint', 'is_excludes_constraint', 'is_pseudocomplex_constraint',
         'is_strictcomplex_constraint')


def check(case):
    tree = _case_tree(case)
    out = []
    bd.SHARE['on'] = case[0] == 'CD'
    try:
        ctc = bd.constraint('c', tree)
    finally:
        bd.SHARE['on'] = False
    engine.tick()
    if bd.obs_tree(ctc.ast.root) != tree:
        return [Fail('build-conformance', sh.tree_str(tree))]
    engine.validated()
    keep, snap = _snapshot(ctc.ast.root)
    ref = _ref_ctc_kinds(tree)
    vals = {}
    for p in PREDS:
        try:
            vals[p] = getattr(ctc, p)()
            engine.tick()
            if not isinstance(vals[p], bool):
                out.append(Fail('predicate-not-bool:' + p, repr(vals[p])))
        except Exception as exc:  # noqa: BLE001
            out.append(Fail('predicate-raises:%s' % p, '%s: %s' % (type(exc).__name__, exc)))
    if out:
        return out
    logical = ref['logical']
    for key, p in (('logical', 'is_logical_constraint'), ('arithmetic', 'is_arithmetic_constraint'),
                   ('aggregation', 'is_aggregation_constraint')):
        if vals[p] != ref[key]:
            out.append(Fail('kind:' + key, {'got': vals[p], 'want': ref[key]}))
    single = (not isinstance(tree, tuple)) or (tree[0] == 'NOT' and not isinstance(tree[1], tuple))
    if vals['is_single_feature_constraint'] != single:
        out.append(Fail('single-feature', {'got': vals['is_single_feature_constraint'], 'want': single}))
    req, exc_ = vals['is_requires_constraint'], vals['is_excludes_constraint']
    if ref['requires'] and not req:
        out.append(Fail('documented-requires-form-not-reported', None))
    if ref['excludes'] and not exc_:
        out.append(Fail('documented-excludes-form-not-reported', None))
    if vals['is_simple_constraint'] != (req or exc_):
        out.append(Fail('simple!=requires-or-excludes', vals))
    if vals['is_complex_constraint'] != (vals['is_logical_constraint'] and not vals['is_simple_constraint']):
        out.append(Fail('complex!=logical-and-not-simple', vals))
    if logical:
        names = sorted(set(sh.tree_names(tree)))
        if req or exc_:
            try:
                l, r = left_right_features_from_simple_constraint(ctc)
                engine.tick()
                if not (isinstance(l, str) and isinstance(r, str)):
                    out.append(Fail('left-right-not-names', repr((l, r))))
                else:
                    if req and not sem.equivalent(tree, ('IMPLIES', l, r), sorted(set(names) | {l, r})):
                        out.append(Fail('requires-not-equivalent', {'pair': [l, r]}))
                    if exc_ and not req and not sem.equivalent(tree, ('EXCLUDES', l, r), sorted(set(names) | {l, r})):
                        out.append(Fail('excludes-not-equivalent', {'pair': [l, r]}))
                    if exc_ and req:
                        out.append(Fail('both-requires-and-excludes', None))
            except Exception as exc:  # noqa: BLE001
                out.append(Fail('left-right-raises', '%s: %s' % (type(exc).__name__, exc)))
        cx, ps, st = vals['is_complex_constraint'], vals['is_pseudocomplex_constraint'], vals['is_strictcomplex_constraint']
        if cx and (ps + st != 1):
            out.append(Fail('complex-not-exactly-one-of-pseudo-strict', {'pseudo': ps, 'strict': st}))
        if ps and not cx:
            out.append(Fail('pseudo-not-complex', None))
        if st and not cx:
            out.append(Fail('strict-not-complex', None))
        try:
            parts = split_constraint(ctc)
            engine.tick()
            ptrees = [bd.obs_tree(p.ast.root) for p in parts]
            if not parts or not all(isinstance(p, Constraint) for p in parts):
                out.append(Fail('split-empty-or-not-constraints', len(parts)))
            else:
                conj = ptrees[0]
                for t in ptrees[1:]:
                    conj = ('AND', conj, t)
                allnames = sorted(set(names) | set(n for t in ptrees for n in sh.tree_names(t)))
                try:
                    if not sem.equivalent(tree, conj, allnames):
                        out.append(Fail('split-not-equivalent', [sh.tree_str(t) for t in ptrees]))
                except sem.Uninterpretable as exc:
                    out.append(Fail('split-malformed', str(exc)))
        except Exception as exc:  # noqa: BLE001
            out.append(Fail('split-raises', '%s: %s' % (type(exc).__name__, exc)))
        if not out:
            # what the caller does with the returned parts must not reach later answers
            try:
                parts = split_constraint(ctc)
                before = [bd.obs_tree(p.ast.root) for p in parts]
                if isinstance(parts, list):
                    parts.clear()
                again = [bd.obs_tree(p.ast.root) for p in split_constraint(ctc)]
                vals2 = {p: getattr(ctc, p)() for p in PREDS}
                feats_obj = ctc.get_features()
                if isinstance(feats_obj, list):
                    feats_obj.clear()
                engine.tick(3)
                if again != before or vals2 != vals or sorted(ctc.get_features()) != names:
                    out.append(Fail('answers-depend-on-what-the-caller-did-with-an-earlier-result',
                                    {'split before': [sh.tree_str(t) for t in before], 'split after': [sh.tree_str(t) for t in again],
                                     'changed predicates': sorted(p for p in PREDS if vals2[p] != vals[p])}))
            except Exception as exc:  # noqa: BLE001
                out.append(Fail('second-query-raises', '%s: %s' % (type(exc).__name__, exc)))
        try:
            feats = ctc.get_features()
            engine.tick()
            if sorted(feats) != names or len(feats) != len(set(feats)):
                out.append(Fail('get_features', {'got': sorted(feats), 'want': names}))
        except Exception as exc:  # noqa: BLE001
            out.append(Fail('get_features-raises', '%s: %s' % (type(exc).__name__, exc)))
    else:
        if vals['is_pseudocomplex_constraint'] or vals['is_strictcomplex_constraint'] or vals['is_complex_constraint']:
            out.append(Fail('non-logical-reported-complex', vals))
    _keep2, snap2 = _snapshot(ctc.ast.root)
    if snap2 != snap or bd.obs_tree(ctc.ast.root) != tree:
        out.append(Fail('constraint-mutated', sh.tree_str(bd.obs_tree(ctc.ast.root))))
    del keep
    return out


def outcome(case):
    if case[0] in ('CL', 'CP', 'CN'):
        return 'chain'
    t = case[1]
    return t[0] if isinstance(t, tuple) else 'term'
