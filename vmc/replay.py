"""python -m vmc.replay <replay.json>  - re-run one recorded violation without the explorer."""
import json
import logging
import sys


def main():
    logging.disable(logging.CRITICAL)
    path = sys.argv[1]
    rec = json.load(open(path, encoding='utf8'))
    from vmc import engine
    prop = engine.load_prop(rec['property'])
    case = engine.tuplify(rec['case'])
    fails = prop.check(case)
    engine.cleanup_tmp()
    hit = [f for f in fails if f.clause == rec['clause']]
    print('property=%s clause=%s witness=%s' % (rec['property'], rec['clause'], rec['witness']))
    for f in fails:
        print('  FAIL %s: %s' % (f.clause, f.detail))
    if hit:
        print('still failing')
        sys.exit(1)
    print('not failing (clause %s holds on this case now)' % rec['clause'])
    sys.exit(0)


if __name__ == '__main__':
    main()
