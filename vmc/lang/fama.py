"""Independent reading of FaMa XML (the format of resources/models) into the shadow form,
and an independent emitter.  Written from the format's definition: a <feature-model> with
one root <feature>; features contain <binaryRelation> (one <solitaryFeature>) and
<setRelation> (several <groupedFeature>) elements, each with a <cardinality min max>;
<requires name feature requires> and <excludes name feature excludes> after the tree."""
from __future__ import annotations

from xml.etree import ElementTree as ET

from .. import shadow as sh


def _local(tag):
    return tag.rsplit('}', 1)[-1].casefold()


def read(path):
    root = ET.parse(path).getroot()
    feature_el = None
    ctcs = []
    for el in root:
        t = _local(el.tag)
        if t == 'feature':
            feature_el = el
        elif t == 'requires':
            ctcs.append((el.attrib['name'], ('REQUIRES', el.attrib['feature'], el.attrib['requires'])))
        elif t == 'excludes':
            ctcs.append((el.attrib['name'], ('EXCLUDES', el.attrib['feature'], el.attrib['excludes'])))

    def feat(el):
        rels = []
        for rel in el:
            t = _local(rel.tag)
            if t not in ('binaryrelation', 'setrelation'):
                continue
            a = b = None
            kids = []
            for x in rel:
                xt = _local(x.tag)
                if xt == 'cardinality':
                    a, b = int(x.attrib['min']), int(x.attrib['max'])
                elif xt in ('solitaryfeature', 'groupedfeature'):
                    kids.append(feat(x))
            rels.append((a, b, tuple(kids)))
        return sh.F(el.attrib['name'], rels)
    return sh.M(feat(feature_el), ctcs)


def emit(model, *, card_first=True, attr_order=0, upper_tags=False, indent=True, rel_names=True):
    """Shadow -> FaMa XML text with explicit surface choices."""
    counter = [0]

    def tag(t):
        return t.upper() if upper_tags else t

    def attrs(pairs):
        if attr_order:
            pairs = list(reversed(pairs))
        return ''.join(' %s="%s"' % (k, v) for k, v in pairs)
    lines = []

    def w(depth, text):
        lines.append(('\t' * depth if indent else '') + text)

    def feat(f, depth, tname):
        if not f[1]:
            w(depth, '<%s%s/>' % (tag(tname), attrs([('name', f[0])])))
            return
        w(depth, '<%s%s>' % (tag(tname), attrs([('name', f[0])])))
        for (a, b, kids) in f[1]:
            counter[0] += 1
            rtag = 'binaryRelation' if len(kids) == 1 else 'setRelation'
            ktag = 'solitaryFeature' if len(kids) == 1 else 'groupedFeature'
            w(depth + 1, '<%s%s>' % (tag(rtag), attrs([('name', 'R-%d' % counter[0])]) if rel_names else ''))
            card = '<%s%s/>' % (tag('cardinality'), attrs([('min', a), ('max', b)]))
            if card_first:
                w(depth + 2, card)
            for k in kids:
                feat(k, depth + 2, ktag)
            if not card_first:
                w(depth + 2, card)
            w(depth + 1, '</%s>' % tag(rtag))
        w(depth, '</%s>' % tag(tname))
    w(0, '<?xml version="1.0" encoding="UTF-8"?>')
    w(0, '<%s>' % tag('feature-model'))
    feat(model[0], 1, 'feature')
    for (n, t) in model[1]:
        op, left, right = t
        if op == 'REQUIRES':
            w(1, '<%s%s/>' % (tag('requires'), attrs([('name', n), ('feature', left), ('requires', right)])))
        elif op == 'EXCLUDES':
            w(1, '<%s%s/>' % (tag('excludes'), attrs([('name', n), ('feature', left), ('excludes', right)])))
        else:
            raise ValueError('FaMa XML only has requires/excludes')
    w(0, '</%s>' % tag('feature-model'))
    return ('\n' if indent else '').join(lines) + '\n'


def selftest():
    import os
    import tempfile
    m = sh.M(sh.F('A', [sh.R(1, 1, [sh.F('B')]), sh.R(1, 2, [sh.F('C'), sh.F('D', [sh.R(0, 1, [sh.F('E')])])])]),
             [('r1', ('REQUIRES', 'B', 'E')), ('e1', ('EXCLUDES', 'C', 'E'))])
    for kw in ({}, {'card_first': False, 'attr_order': 1, 'indent': False}):
        fd, p = tempfile.mkstemp(suffix='.xml')
        os.write(fd, emit(m, **kw).encode('utf8'))
        os.close(fd)
        try:
            assert read(p) == m, (read(p), m)
        finally:
            os.remove(p)
