"""Independent reference emitter for AFM text.  The grammar ships only as a generated ANTLR
parser; the syntactic freedoms used here (optional SPACE around ':', between ']' and '{',
inside braces, line breaks between children and between specifications, absent blocks) were
checked token by token against that parser."""
from __future__ import annotations

import itertools

from .. import shadow as sh

CHOICES = {
    'colon': (' : ', ': ', ' :', ':'),
    'brace_gap': ('', ' '),
    'brace_inner': (False, True),
    'child_newline': (False, True),
    'one_line': (False, True),
    'empty_blocks': ('both', 'none', 'constraints-only'),
    'parens': ('minimal', 'full', 'wrapped'),
    'blank_lines': (False, True),
    'block': (None, 'first', 'last'),     # a `Feature { ... }` block over two attributes of one feature
}
DEFAULT = {k: v[0] for k, v in CHOICES.items()}
KW = {'AND': 'AND', 'OR': 'OR', 'NOT': 'NOT', 'EQUIVALENCE': 'IFF', 'IMPLIES': 'IMPLIES', 'REQUIRES': 'REQUIRES',
      'EXCLUDES': 'EXCLUDES'}


def all_choices():
    keys = list(CHOICES)
    for combo in itertools.product(*[CHOICES[k] for k in keys]):
        yield dict(zip(keys, combo))


def covering_choices():
    out = [dict(DEFAULT)]
    for k, vals in CHOICES.items():
        for v in vals[1:]:
            c = dict(DEFAULT)
            c[k] = v
            out.append(c)
    out.append({k: v[-1] for k, v in CHOICES.items()})
    return out


def expr(t, ch, nested=False):
    if not isinstance(t, tuple):
        return '(%s)' % t if ch['parens'] == 'full' and nested else t
    if t[0] == 'NOT':
        s = 'NOT ' + expr(t[1], ch, True)
    else:
        s = '%s %s %s' % (expr(t[1], ch, True), KW[t[0]], expr(t[2], ch, True))
    return '(%s)' % s if nested else s


def emit(model, ch):
    sep = '\n' if not ch['one_line'] else ' '
    out = ['%Relationships']
    if ch['blank_lines']:
        out.append('')
    specs = []

    def rec(f):
        if not f[1]:
            return
        parts = []
        for (a, b, kids) in f[1]:
            if len(kids) == 1 and (a, b) == (1, 1):
                parts.append(kids[0][0])
            elif len(kids) == 1 and (a, b) == (0, 1):
                parts.append('[%s]' % kids[0][0])
            else:
                inner = ' '.join(k[0] for k in kids)
                if ch['brace_inner']:
                    inner = ' %s ' % inner
                parts.append('[%d,%d]%s{%s}' % (a, b, ch['brace_gap'], inner))
        joiner = '\n ' if ch['child_newline'] else ' '
        specs.append(f[0] + ch['colon'] + joiner.join(parts) + ';')
        for (_a, _b, kids) in f[1]:
            for k in kids:
                rec(k)
    rec(model[0])
    if not specs:
        raise ValueError('AFM needs at least one relationship')
    out.append(sep.join(specs))
    attr_lines = []
    for f in sh.features(model):
        for (an, av) in f[5]:
            v = sh.thaw(av)
            if v['ranges']:
                dom = 'Integer' + ''.join('[%d to %d]' % (lo, hi) for lo, hi in v['ranges'])
            else:
                dom = '[' + ','.join(v['elements']) + ']'
            attr_lines.append('%s.%s: %s,%s,%s;' % (f[0], an, dom, v['default'], v['null']))
    if attr_lines or ch['empty_blocks'] == 'both':
        if ch['blank_lines']:
            out.append('')
        out.append('%Attributes')
        out.extend(attr_lines)
    if model[1] or ch['empty_blocks'] in ('both', 'constraints-only'):
        if ch['blank_lines']:
            out.append('')
        out.append('%Constraints')
        blk = block_constraint(model) if ch.get('block') else None
        if blk and ch['block'] == 'first':
            out.append('%s { %s AND %s; }' % blk)
        for (_n, t) in model[1]:
            s = expr(t, ch)
            if ch['parens'] == 'wrapped':
                s = '(%s)' % s
            out.append(s + ';')
        if blk and ch['block'] == 'last':
            out.append('%s { %s AND %s; }' % blk)
    return '\n'.join(out) + '\n'


def block_constraint(model):
    """(feature, attr1, attr2) of the first feature that has two attributes, else None."""
    for f in sh.features(model):
        if len(f[5]) >= 2:
            return (f[0], f[5][0][0], f[5][1][0])
    return None


def expected_constraints(model, ch):
    """The constraint trees the document denotes (the block adds `F.a AND F.b`)."""
    trees = [t for _n, t in model[1]]
    blk = block_constraint(model) if ch.get('block') and (model[1] or ch['empty_blocks'] in ('both', 'constraints-only')) else None
    if blk:
        extra = ('AND', '%s.%s' % (blk[0], blk[1]), '%s.%s' % (blk[0], blk[2]))
        trees = [extra] + trees if ch['block'] == 'first' else trees + [extra]
    return trees


def selftest():
    F, R, M = sh.F, sh.R, sh.M
    m = M(F('Fa', [R(1, 1, [F('Bb', [R(0, 1, [F('Xx')])])]), R(0, 1, [F('Dc')]), R(1, 2, [F('Ee'), F('Gg')])]),
          [('c', ('IMPLIES', ('AND', 'Bb', ('NOT', 'Dc', None)), ('EQUIVALENCE', 'Ee', 'Gg')))])
    doc = emit(m, dict(DEFAULT))
    assert doc == ('%Relationships\nFa : Bb [Dc] [1,2]{Ee Gg};\nBb : [Xx];\n%Attributes\n%Constraints\n'
                   '(Bb AND (NOT Dc)) IMPLIES (Ee IFF Gg);\n'), doc
