"""Independent reference emitter for FeatureIDE XML (featureModel / struct / constraints)."""
from __future__ import annotations

import itertools
from xml.sax.saxutils import escape, quoteattr

from .. import sem
from .. import shadow as sh

CHOICES = {
    'attr_order': (0, 1),                 # name first / name last
    'optional_style': ('absent', 'false'),   # optional child: no mandatory attribute / mandatory="false"
    'concrete_style': ('absent', 'false'),   # concrete feature: no abstract attribute / abstract="false"
    'graphics': (False, True),            # <graphics> children of features and rules
    'description': (False, True),         # <description> children of features and rules
    'nary': (2, 3, 4, 7),                    # maximum number of operands of conj / disj
    'empty_constraints': ('element', 'selfclosed', 'missing'),   # when there are no constraints
    'extra_sections': (False, True),
    'indent': (True, False),
    'group_child_flag': (None, 'true', 'false'),   # mandatory attribute on children of or/alt (ignored by FeatureIDE)
    # element used for a feature without children.  Anything but <feature> is a degenerate document (a group
    # element without members): a reader may reject it, or read the childless element as the leaf it is
    'leaf_tag': ('feature', 'and', 'or', 'alt'),
    'section_order': ('struct-first', 'constraints-first'),    # XML child order carries no meaning in the format
}
DEFAULT = {k: v[0] for k, v in CHOICES.items()}


def all_choices():
    keys = list(CHOICES)
    for combo in itertools.product(*[CHOICES[k] for k in keys]):
        yield dict(zip(keys, combo))


def covering_choices():
    out = [dict(DEFAULT)]
    for k, vals in CHOICES.items():
        for v in vals[1:]:
            c = dict(DEFAULT)
            c[k] = v
            out.append(c)
    out.append({k: v[-1] for k, v in CHOICES.items()})
    return out


def _flatten(t, op, limit):
    """Operands of a left-nested chain of `op`, at most `limit` of them."""
    ops = [t[2]]
    cur = t[1]
    while isinstance(cur, tuple) and cur[0] == op and len(ops) < limit - 1:
        ops.append(cur[2])
        cur = cur[1]
    ops.append(cur)
    return list(reversed(ops))


def emit(model, ch):
    lines = []

    def w(depth, s):
        lines.append(('\t' * depth if ch['indent'] else '') + s)

    def attrs(pairs):
        if ch['attr_order']:
            pairs = list(reversed(pairs))
        return ''.join(' %s=%s' % (k, quoteattr(v)) for k, v in pairs)

    def deco(depth):
        if ch['graphics']:
            w(depth, '<graphics key="collapsed" value="false"/>')
        if ch['description']:
            w(depth, '<description>some text &amp; more</description>')

    def feat(f, depth, parent_kind):
        name, rels, abstract = f[0], f[1], f[2]
        kinds = [sem.kind(a, b, len(k)) for (a, b, k) in rels]
        if not rels:
            tag = ch.get('leaf_tag', 'feature') if parent_kind != 'root' else 'feature'
        elif kinds == ['or']:
            tag = 'or'
        elif kinds == ['alternative']:
            tag = 'alt'
        else:
            tag = 'and'
        pairs = [('name', name)]
        if abstract:
            pairs.append(('abstract', 'true'))
        elif ch['concrete_style'] == 'false':
            pairs.append(('abstract', 'false'))
        if parent_kind == 'mandatory':
            pairs.append(('mandatory', 'true'))
        elif parent_kind == 'optional' and ch['optional_style'] == 'false':
            pairs.append(('mandatory', 'false'))
        elif parent_kind == 'root':
            pairs.append(('mandatory', 'true'))
        elif parent_kind == 'grouped' and ch['group_child_flag']:
            pairs.append(('mandatory', ch['group_child_flag']))
        if not rels and not ch['graphics'] and not ch['description']:
            w(depth, '<%s%s/>' % (tag, attrs(pairs)))
            return
        w(depth, '<%s%s>' % (tag, attrs(pairs)))
        deco(depth + 1)
        for (a, b, kids), k in zip(rels, kinds):
            for kid in kids:
                feat(kid, depth + 1, k if k in ('mandatory', 'optional') else 'grouped')
        w(depth, '</%s>' % tag)

    def rule(t, depth):
        if not isinstance(t, tuple):
            w(depth, '<var>%s</var>' % escape(t))
            return
        op = t[0]
        if op == 'NOT':
            w(depth, '<not>')
            rule(t[1], depth + 1)
            w(depth, '</not>')
            return
        tag = {'AND': 'conj', 'OR': 'disj', 'IMPLIES': 'imp', 'EQUIVALENCE': 'eq'}[op]
        operands = _flatten(t, op, ch['nary']) if op in ('AND', 'OR') else [t[1], t[2]]
        w(depth, '<%s>' % tag)
        for o in operands:
            rule(o, depth + 1)
        w(depth, '</%s>' % tag)
    w(0, '<?xml version="1.0" encoding="UTF-8" standalone="no"?>')
    w(0, '<featureModel>')
    if ch['extra_sections']:
        w(1, '<properties><graphics key="legendautolayout" value="true"/></properties>')
    w(1, '<struct>')
    feat(model[0], 2, 'root')
    w(1, '</struct>')
    if model[1]:
        w(1, '<constraints>')
        for (_n, t) in model[1]:
            w(2, '<rule>')
            deco(3)
            rule(t, 3)
            w(2, '</rule>')
        w(1, '</constraints>')
    elif ch['empty_constraints'] == 'element':
        w(1, '<constraints>')
        w(1, '</constraints>')
    elif ch['empty_constraints'] == 'selfclosed':
        w(1, '<constraints/>')
    if ch['extra_sections']:
        w(1, '<calculations Auto="true" Constraints="true" Features="true" Redundant="true" Tautology="true"/>')
        w(1, '<comments/>')
        w(1, '<featureOrder userDefined="false"/>')
    w(0, '</featureModel>')
    if ch.get('section_order') == 'constraints-first':
        # move the <constraints> element (whatever form it has) in front of <struct>
        starts = [i for i, l in enumerate(lines) if l.strip().startswith('<constraints')]
        if starts:
            i0 = starts[0]
            i1 = i0 if lines[i0].strip().endswith('/>') else next(i for i in range(i0, len(lines)) if lines[i].strip() == '</constraints>')
            block = lines[i0:i1 + 1]
            del lines[i0:i1 + 1]
            s0 = next(i for i, l in enumerate(lines) if l.strip() == '<struct>')
            lines[s0:s0] = block
    return ('\n' if ch['indent'] else '').join(lines) + '\n'


def selftest():
    from xml.etree import ElementTree as ET
    F, R, M = sh.F, sh.R, sh.M
    m = M(F('Fa', [R(1, 1, [F('Bb', [R(1, 2, [F('X1'), F('X2')])])]), R(0, 1, [F('D c', abstract=True)])]),
          [('c1', ('AND', ('AND', ('AND', 'Bb', 'X1'), 'X2'), ('NOT', 'D c', None)))])
    for ch in covering_choices():
        root = ET.fromstring(emit(m, ch).encode('utf8'))
        assert root.tag == 'featureModel'
        names = [e.attrib['name'] for e in root.iter() if e.tag in ('and', 'or', 'alt', 'feature')]
        assert names == ['Fa', 'Bb', 'X1', 'X2', 'D c'], names
        conj = root.find('./constraints/rule/conj')
        want = {2: 2, 3: 3, 4: 4, 7: 4}[ch['nary']]
        assert len(list(conj)) == want, (ch['nary'], len(list(conj)))
