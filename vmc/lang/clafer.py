"""Independent interpreter of the Clafer subset emitted by ClaferWriter.

Subset: an optional 'abstract AttributedFeature' block declaring 'name -> type' references; one
abstract root clafer with nested clafers (TAB indentation); a clafer line is
  [abstract] [xor|or|mux|a..b] NAME [: SUPER] [?]
(group cardinality of the clafer's children, then its own optionality); attribute assignments
'[name = value]' nested under a clafer; top-level constraints '[expr]' over clafer names with
! not && || xor => <=>; an instance 'CP : ROOT'.
Clafer semantics: children of a clafer without group cardinality are mandatory (1..1) unless
marked '?'; children under a group cardinality are optional and a..b of them are present."""
from __future__ import annotations

import itertools
import re


class ClaferError(Exception):
    pass


IDENT = r'(?:"[^"\n]*"|[A-Za-z_][A-Za-z0-9_]*)'
CLAFER_LINE = re.compile(r'^(?:(abstract)\s+)?(?:(xor|or|mux|\d+\.\.(?:\d+|\*))\s+)?(' + IDENT + r')(?:\s*:\s*(' + IDENT + r'))?(\s*\?)?\s*$')
TOK = re.compile(r'\s*(<=>|=>|&&|\|\||!|\(|\)|"[^"\n]*"|[A-Za-z_][A-Za-z0-9_]*)')
RESERVED = {'not', 'xor', 'or', 'mux', 'abstract'}


def _unq(s):
    return s[1:-1] if len(s) >= 2 and s[0] == '"' and s[-1] == '"' else s


def parse(text):
    lines = text.split('\n')
    i = 0
    decls = {}
    model = {'root': None, 'constraints': [], 'instance': None, 'decls': decls, 'assignments': []}
    # optional attribute block
    while i < len(lines) and not lines[i].strip():
        i += 1
    if i < len(lines) and lines[i].strip() == 'abstract AttributedFeature':
        i += 1
        while i < len(lines) and lines[i][:1] in ('\t', ' ') and lines[i].strip():
            m = re.match(r'^\s+(.+?)\s*->\s*(\S*)\s*$', lines[i])
            if not m:
                raise ClaferError('bad attribute declaration %r' % lines[i])
            decls[m.group(1)] = m.group(2)
            i += 1
    stack = []
    indents = []
    for line in lines[i:]:
        if not line.strip():
            continue
        width = len(line[:len(line) - len(line.lstrip(' \t'))].expandtabs(8))
        while indents and indents[-1] > width:
            indents.pop()
        if not indents or indents[-1] < width:
            indents.append(width)
        depth = len(indents) - 1
        body = line.strip()
        if body.startswith('['):
            if not body.endswith(']'):
                raise ClaferError('unterminated bracket %r' % body)
            inner = body[1:-1]
            if depth == 0:
                model['constraints'].append(parse_expr(inner))
            else:
                m = re.match(r'^(' + IDENT + r')\s*=\s*(.*)$', inner)
                if not m:
                    raise ClaferError('bad attribute assignment %r' % body)
                owner = None
                for node in reversed(stack):
                    if node['depth'] == depth - 1:
                        owner = node
                        break
                if owner is None:
                    raise ClaferError('attribute assignment without owner %r' % body)
                model['assignments'].append((owner, m.group(1), m.group(2)))
            continue
        m = re.match(r'^(' + IDENT + r')\s*:\s*(' + IDENT + r')\s*$', body)
        if depth == 0 and m and model['root'] is not None and not body.startswith('abstract'):
            model['instance'] = (_unq(m.group(1)), _unq(m.group(2)))
            continue
        m = CLAFER_LINE.match(body)
        if not m:
            raise ClaferError('bad clafer line %r' % body)
        abstract, group, name, sup, opt = m.groups()
        if _unq(name) in RESERVED and not name.startswith('"'):
            raise ClaferError('reserved word used as name %r' % body)
        node = {'name': _unq(name), 'raw': name, 'group': group, 'super': _unq(sup) if sup else None,
                'optional': bool(opt), 'children': [], 'depth': depth, 'abstract': bool(abstract)}
        while stack and stack[-1]['depth'] >= depth:
            stack.pop()
        if depth == 0:
            if model['root'] is not None:
                raise ClaferError('second top-level clafer %r' % body)
            if not abstract:
                raise ClaferError('root clafer is not abstract')
            model['root'] = node
        else:
            if not stack or stack[-1]['depth'] != depth - 1:
                raise ClaferError('indentation jump at %r' % body)
            stack[-1]['children'].append(node)
        stack.append(node)
    if model['root'] is None:
        raise ClaferError('no root clafer')
    return model


def parse_expr(s):
    toks = []
    pos = 0
    s = s.strip()
    while pos < len(s):
        m = TOK.match(s, pos)
        if not m:
            raise ClaferError('cannot tokenise constraint at %r' % s[pos:pos + 20])
        toks.append(m.group(1))
        pos = m.end()
    p = [0]

    def peek():
        return toks[p[0]] if p[0] < len(toks) else None

    def eat(t=None):
        cur = peek()
        if cur is None or (t is not None and cur != t):
            raise ClaferError('expected %r found %r in %r' % (t, cur, s))
        p[0] += 1
        return cur

    def iff():
        left = imp()
        while peek() == '<=>':
            eat()
            left = ('EQUIVALENCE', left, imp())
        return left

    def imp():
        left = orx()
        if peek() == '=>':
            eat()
            return ('IMPLIES', left, imp())
        return left

    def orx():
        left = xorx()
        while peek() == '||':
            eat()
            left = ('OR', left, xorx())
        return left

    def xorx():
        left = andx()
        while peek() == 'xor':
            eat()
            left = ('XOR', left, andx())
        return left

    def andx():
        left = unary()
        while peek() == '&&':
            eat()
            left = ('AND', left, unary())
        return left

    def unary():
        if peek() in ('!', 'not'):
            eat()
            return ('NOT', unary(), None)
        if peek() == '(':
            eat('(')
            e = iff()
            eat(')')
            return e
        t = eat()
        if t in ('<=>', '=>', '&&', '||', ')', 'xor'):
            raise ClaferError('operator %r where a name is expected in %r' % (t, s))
        return _unq(t)
    e = iff()
    if peek() is not None:
        raise ClaferError('trailing %r in constraint %r' % (peek(), s))
    return e


def all_nodes(root):
    out = []

    def rec(n):
        out.append(n)
        for c in n['children']:
            rec(c)
    rec(root)
    return out


def group_card(node):
    g = node['group']
    k = len(node['children'])
    if g is None:
        return None
    if g == 'xor':
        return (1, 1)
    if g == 'or':
        return (1, k)
    if g == 'mux':
        return (0, 1)
    a, b = g.split('..')
    return (int(a), k if b == '*' else int(b))


def configs(text):
    from .. import sem as _sem
    with _sem.deep_recursion():
        return _configs(text)


def _configs(text):
    from .. import sem
    model = parse(text)
    root = model['root']
    nodes = all_nodes(root)
    names = [n['name'] for n in nodes]
    if len(names) != len(set(names)):
        raise ClaferError('duplicate clafer names')
    if model['instance'] is None or model['instance'][1] != root['name']:
        raise ClaferError('no instance of the root clafer')
    used = set()
    for c in model['constraints']:
        _idents(c, used)
    unknown = used - set(names)
    if unknown:
        raise ClaferError('constraint refers to undeclared clafers %s' % sorted(unknown))
    others = names[1:]
    out = set()

    def ok(node, sel):
        me = node['name'] in sel
        card = group_card(node)
        k = 0
        for ch in node['children']:
            cs = ch['name'] in sel
            if ch['abstract']:
                # a nested abstract clafer is a type declaration: it has no instance, nor has anything below it
                if cs or not ok(ch, sel):
                    return False
                continue
            if cs and not me:
                return False
            if cs:
                k += 1
            if card is None and me and not ch['optional'] and not cs:
                return False
            if not ok(ch, sel):
                return False
        if card is not None and me and not (card[0] <= k <= card[1]):
            return False
        return True
    for bits in itertools.product((False, True), repeat=len(others)):
        sel = {root['name']}
        sel.update(n for n, b in zip(others, bits) if b)
        if ok(root, sel) and all(sem.ev(c, sel) for c in model['constraints']):
            out.add(frozenset(sel))
    return out, names, model


def _idents(t, acc):
    if isinstance(t, tuple):
        _idents(t[1], acc)
        if t[2] is not None:
            _idents(t[2], acc)
    else:
        acc.add(t)


def selftest():
    doc = ('abstract AttributedFeature\n\tcost -> integer\n\nabstract R\n\tA\n\tB ?\n\txor C : AttributedFeature ?\n'
           '\t\t[cost = 3]\n\t\tD\n\t\tE\n\t1..2 G\n\t\tH\n\t\tI\n\t\tJ\n[D => B]\n[not (H && I) || J]\n\nCP : R\n')
    cfgs, names, model = configs(doc)
    assert names == ['R', 'A', 'B', 'C', 'D', 'E', 'G', 'H', 'I', 'J'], names
    # A, G mandatory; B optional; C optional with xor(D,E); G: 1..2 of H,I,J (6 ways);
    # D => B ; not(H&&I)||J removes {H,I}: 5 ways ; (B,C,D,E): C absent: B free (2); C with E: B free (2); C with D: B (1) => 5
    assert len(cfgs) == 25, len(cfgs)
    assert model['decls'] == {'cost': 'integer'} and model['assignments'][0][1:] == ('cost', '3')
    for bad in (doc.replace('[D => B]', '[D => Z]'), doc.replace('[D => B]', '[D XOR B]'), doc.replace('CP : R', '')):
        try:
            configs(bad)
            raise AssertionError('accepted a malformed document')
        except ClaferError:
            pass
