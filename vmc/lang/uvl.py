"""Independent reference emitter for UVL: shadow model -> document, under an explicit vector
of surface choices.  Written from the language definition (and token rules checked against
the generated lexer), never through the library's writer."""
from __future__ import annotations

import itertools
import re

from .. import sem
from .. import shadow as sh

KEYWORDS = {'include', 'namespace', 'imports', 'as', 'features', 'cardinality', 'constraint', 'constraints', 'sum', 'avg',
            'len', 'floor', 'ceil', 'String', 'Integer', 'Real', 'Boolean', 'Arithmetic', 'Type', 'or', 'alternative',
            'optional', 'mandatory', 'true', 'false'}
BINARY_CHOICES = ('quote_all', 'parens_all', 'group_per_child', 'comments', 'blank_before_constraints',
                  'namespace', 'imports', 'include', 'explicit_boolean')
INDENTS = ('\t', '    ', '  ')
DEFAULT = dict({k: False for k in BINARY_CHOICES}, indent='\t')
SYM = {'AND': '&', 'OR': '|', 'IMPLIES': '=>', 'EQUIVALENCE': '<=>', 'EQUALS': '==', 'LOWER': '<', 'GREATER': '>',
       'LOWER_EQUALS': '<=', 'GREATER_EQUALS': '>=', 'NOT_EQUALS': '!=', 'ADD': '+', 'SUB': '-', 'MUL': '*', 'DIV': '/'}
PREC = {'EQUIVALENCE': 1, 'IMPLIES': 2, 'OR': 3, 'AND': 4, 'NOT': 5}
AGG = {'SUM': 'sum', 'AVG': 'avg', 'LEN': 'len', 'FLOOR': 'floor', 'CEIL': 'ceil'}


def all_choices():
    """Full product of the first eight choices; the spelled-out default type (`Boolean F`) is combined
    with the covering set only (it does not interact with the surface of the rest of the document)."""
    for bits in itertools.product((False, True), repeat=len(BINARY_CHOICES) - 1):
        for ind in INDENTS:
            ch = dict(zip(BINARY_CHOICES, bits + (False,)))
            ch['indent'] = ind
            yield ch
    for c in covering_choices():
        if c['explicit_boolean'] or all(c[k] for k in BINARY_CHOICES[:-1]):
            yield dict(c, explicit_boolean=True)


def covering_choices():
    """default, everything on, each single choice flipped, each indentation."""
    out = [dict(DEFAULT)]
    allon = dict({k: True for k in BINARY_CHOICES}, indent='    ')
    out.append(allon)
    for k in BINARY_CHOICES:
        c = dict(DEFAULT)
        c[k] = True
        out.append(c)
    for ind in INDENTS[1:]:
        c = dict(DEFAULT)
        c['indent'] = ind
        out.append(c)
    return out


def needs_quotes(name):
    return not re.match(r'^[a-zA-Z][a-zA-Z0-9_]*$', name) or name in KEYWORDS


def ident(name, ch):
    return '"%s"' % name if (ch['quote_all'] or needs_quotes(name)) else name


def ref(name, ch):
    """A (possibly dotted) reference inside a constraint."""
    return '.'.join(ident(p, ch) for p in name.split('.'))


def value(v, ch):
    if v is None:
        raise ValueError('no value')
    if isinstance(v, bool):
        return 'true' if v else 'false'
    if isinstance(v, (int, float)):
        return repr(v)
    if isinstance(v, str):
        return "'%s'" % v
    if isinstance(v, list):
        return '[' + ', '.join(value(x, ch) for x in v) + ']'
    if isinstance(v, dict):
        return '{' + ', '.join(ident(k, ch) if x is None else '%s %s' % (ident(k, ch), value(x, ch)) for k, x in v.items()) + '}'
    raise ValueError(type(v))


def card(a, b):
    if a == b:
        return '[%d]' % a
    return '[%d..%s]' % (a, '*' if b == -1 else b)


def expr(t, ch, top=True):
    """Arithmetic expression / term."""
    if isinstance(t, tuple):
        op = t[0]
        if op in AGG:
            args = [ref(a, ch) for a in (t[1], t[2]) if a is not None]
            return '%s(%s)' % (AGG[op], ', '.join(args))
        s = '%s %s %s' % (expr(t[1], ch, False), SYM[op], expr(t[2], ch, False))
        return s if top else '(%s)' % s
    if isinstance(t, str):
        return t if t.startswith("'") else ref(t, ch)
    return repr(t)


def constraint(t, ch, parent_prec=0, right=False):
    if not isinstance(t, tuple):
        s = ref(t, ch)
        return '(%s)' % s if ch['parens_all'] and parent_prec else s
    op = t[0]
    if op in sh.COMPARISON:
        s = '%s %s %s' % (expr(t[1], ch), SYM[op], expr(t[2], ch))
        return '(%s)' % s if (ch['parens_all'] or parent_prec >= PREC['NOT']) and parent_prec else s
    if op == 'NOT':
        inner = constraint(t[1], ch, PREC['NOT'])
        s = '!' + inner
        return '(%s)' % s if ch['parens_all'] and parent_prec else s
    p = PREC[op]
    left = constraint(t[1], ch, p, False)
    rights = constraint(t[2], ch, p, True)
    s = '%s %s %s' % (left, SYM[op], rights)
    need = parent_prec > p or (parent_prec == p and (right or op in ('IMPLIES', 'EQUIVALENCE')))
    if parent_prec and (need or ch['parens_all']):
        return '(%s)' % s
    return s


def emit(model, ch):
    ind = ch['indent']
    cmt = ' // note' if ch['comments'] else ''
    lines = []
    if ch['namespace']:
        # the common convention: the namespace is the name of the root feature
        lines.append('namespace ' + (model[0][0] if not needs_quotes(model[0][0]) else 'RefModel') + cmt)
    if ch['include']:
        lines.append('include' + cmt)
        lines.append(ind + 'Boolean.group-cardinality' + cmt)
        lines.append(ind + 'Arithmetic.*' + cmt)
    if ch['imports']:
        lines.append('imports' + cmt)
        lines.append(ind + 'other.sub as os' + cmt)
        lines.append(ind + 'third' + cmt)
    lines.append('features' + cmt)

    def feat(f, depth):
        name, rels, abstract, ftype, fcard, attrs = f
        s = ind * depth
        if ftype != 'Boolean' or ch.get('explicit_boolean'):
            s += ftype + ' '
        s += ident(name, ch)
        if tuple(fcard) != (1, 1):
            s += ' cardinality ' + card(fcard[0], fcard[1])
        items = []
        if abstract:
            items.append('abstract')
        for (an, av) in attrs:
            v = sh.thaw(av)
            items.append(ident(an, ch) if v is None else '%s %s' % (ident(an, ch), value(v, ch)))
        if abstract and len(items) > 1 and ch.get('explicit_boolean'):
            items = items[1:] + items[:1]      # the order of the entries carries no meaning: marker last under this choice
        if items:
            s += ' {' + ', '.join(items) + '}'
        lines.append(s + cmt)
        prev_kw = None
        for (a, b, kids) in rels:
            k = sem.kind(a, b, len(kids))
            kw = {'mandatory': 'mandatory', 'optional': 'optional', 'or': 'or', 'alternative': 'alternative'}.get(k) or card(a, b)
            mergeable = k in ('mandatory', 'optional') and not ch['group_per_child']
            if not (mergeable and kw == prev_kw):
                lines.append(ind * (depth + 1) + kw + cmt)
            prev_kw = kw if mergeable else None
            for kid in kids:
                feat(kid, depth + 2)
    feat(model[0], 1)
    if model[1]:
        if ch['blank_before_constraints']:
            lines.append('')
        lines.append('constraints' + cmt)
        for (_n, t) in model[1]:
            lines.append(ind + constraint(t, ch) + cmt)
    return '\n'.join(lines) + '\n'


def selftest():
    F, R, M = sh.F, sh.R, sh.M
    m = M(F('Fa', [R(1, 1, [F('Bb')]), R(1, 1, [F('or', ftype='Integer', fcard=(1, -1))]), R(0, 1, [F('Dc')]),
                   R(1, 2, [F('X1'), F('X2')]), R(2, 3, [F('Y1'), F('Y2'), F('Y3')])], abstract=True,
            attrs=[('a', sh.freeze(1)), ('b', sh.freeze(None)), ('c', sh.freeze({'k': [1, 'x']}))]),
          [('c1', ('IMPLIES', ('AND', 'Bb', ('OR', 'Dc', 'X1')), ('NOT', ('EQUIVALENCE', 'X2', 'Bb'), None))),
           ('c2', ('GREATER', ('ADD', 'Bb.att', ('MUL', 3, 'Dc.att')), ('SUM', 'att', 'Fa')))])
    doc = emit(m, dict(DEFAULT))
    want = ('features\n\tFa {abstract, a 1, b, c {k [1, \'x\']}}\n\t\tmandatory\n\t\t\tBb\n\t\t\tInteger "or" cardinality [1..*]\n'
            '\t\toptional\n\t\t\tDc\n\t\tor\n\t\t\tX1\n\t\t\tX2\n\t\t[2..3]\n\t\t\tY1\n\t\t\tY2\n\t\t\tY3\n'
            'constraints\n\tBb & (Dc | X1) => !(X2 <=> Bb)\n\tBb.att + (3 * Dc.att) > sum(att, Fa)\n')
    assert doc == want, doc
    doc2 = emit(m, dict(DEFAULT, parens_all=True, quote_all=True, group_per_child=True))
    assert '("Bb") & (("Dc") | ("X1"))' in doc2 and doc2.count('mandatory') == 2, doc2
    assert len(list(all_choices())) == 768 + 2
