"""Independent interpreter of SPLOT's SXFM text (feature_tree lines + CNF clauses).

Semantics used (SPLOT / SXFM):  ':r name (id)' root; ':m' mandatory child; ':o' optional child;
':g [a,b]' a group whose members are the following deeper ': name (id)' lines, of which
between a and b (b may be '*') are selected when the owner of the group is selected; nesting
by TAB indentation; clauses 'Cn: lit or lit ...' with '~id' for negation, over ids."""
from __future__ import annotations

import itertools
import re


class SXFMError(Exception):
    pass


LINE = re.compile(r'^([ \t]*)(:r|:m|:o|:g|:)\s*(.*)$')
NAMEID = re.compile(r'^(.*)\((.*)\)\s*$')


def _unq(s):
    s = s.strip()
    if len(s) >= 2 and s[0] == '"' and s[-1] == '"':
        return s[1:-1]
    return s


def parse(text):
    m = re.search(r'<feature_tree>\n(.*?)\n?</feature_tree>', text, re.S)
    if not m:
        raise SXFMError('no feature_tree section')
    tree_lines = [l for l in m.group(1).split('\n') if l.strip()]
    c = re.search(r'<constraints>\n?(.*?)\n?</constraints>', text, re.S)
    if c is None:
        raise SXFMError('no constraints section')
    clause_lines = [l for l in c.group(1).split('\n') if l.strip()]
    nodes = []     # dict(kind, id, depth, card, children)
    stack = []
    root = None
    indents = []          # stack of indentation widths seen on the current path
    for line in tree_lines:
        mm = LINE.match(line)
        if not mm:
            raise SXFMError('bad tree line %r' % line)
        width, kind, rest = len(mm.group(1).expandtabs(8)), mm.group(2), mm.group(3)
        while indents and indents[-1] > width:
            indents.pop()
        if not indents or indents[-1] < width:
            indents.append(width)
        depth = len(indents) - 1
        node = {'kind': kind, 'depth': depth, 'children': [], 'id': None, 'card': None}
        if kind == ':g':
            cm_ = re.match(r'^\[(\d+),(\d+|\*)\]\s*$', rest)
            if not cm_:
                raise SXFMError('bad group cardinality %r' % rest)
            node['card'] = (int(cm_.group(1)), -1 if cm_.group(2) == '*' else int(cm_.group(2)))
        else:
            nm = NAMEID.match(rest)
            if not nm:
                raise SXFMError('bad feature line %r' % line)
            node['id'] = _unq(nm.group(2))
        while stack and stack[-1]['depth'] >= depth:
            stack.pop()
        if kind == ':r':
            if root is not None or depth != 0:
                raise SXFMError('second root / indented root')
            root = node
        else:
            if not stack or stack[-1]['depth'] != depth - 1:
                raise SXFMError('indentation jump at %r' % line)
            parent = stack[-1]
            if kind == ':' and parent['kind'] != ':g':
                raise SXFMError('grouped feature outside a group: %r' % line)
            if kind in (':m', ':o', ':g') and parent['kind'] == ':g':
                raise SXFMError('%s directly inside a group' % kind)
            parent['children'].append(node)
        stack.append(node)
        nodes.append(node)
    if root is None:
        raise SXFMError('no root')
    ids = [n['id'] for n in nodes if n['id'] is not None]
    if len(ids) != len(set(ids)):
        raise SXFMError('duplicate ids')
    clauses = []
    for line in clause_lines:
        cm2 = re.match(r'^\s*([^:]+):\s*(.*)$', line)
        if not cm2:
            raise SXFMError('bad clause %r' % line)
        lits = []
        for tok in re.split(r'\s+or\s+', cm2.group(2).strip()):
            tok = tok.strip()
            neg = tok.startswith('~')
            ident = _unq(tok[1:] if neg else tok)
            if ident not in ids:
                raise SXFMError('clause refers to unknown id %r' % ident)
            lits.append((ident, not neg))
        clauses.append(lits)
    return root, ids, clauses


def configs(text):
    from .. import sem as _sem
    with _sem.deep_recursion():
        return _configs(text)


def _configs(text):
    """Set of frozensets of ids: the selections the SXFM document admits."""
    root, ids, clauses = parse(text)
    out = set()
    others = [i for i in ids if i != root['id']]

    def ok(node, sel):
        # node is a feature node that is selected or not; check its sub-structure
        me = node['id'] in sel
        for ch in node['children']:
            if ch['kind'] == ':g':
                members = ch['children']
                k = sum(1 for mbr in members if mbr['id'] in sel)
                if me:
                    a, b = ch['card']
                    if k < a or (b != -1 and k > b):
                        return False
                elif k:
                    return False
                for mbr in members:
                    if not ok(mbr, sel):
                        return False
            else:
                cs = ch['id'] in sel
                if cs and not me:
                    return False
                if ch['kind'] == ':m' and me and not cs:
                    return False
                if not ok(ch, sel):
                    return False
        return True
    for bits in itertools.product((False, True), repeat=len(others)):
        sel = {root['id']}
        sel.update(i for i, b in zip(others, bits) if b)
        if not ok(root, sel):
            continue
        if all(any((ident in sel) == pos for ident, pos in cl) for cl in clauses):
            out.add(frozenset(sel))
    return out, ids


def selftest():
    doc = ('<?xml version="1.0"?>\n<feature_model name="x">\n<feature_tree>\n:r R (R)\n\t:m A (A)\n\t:o B (B)\n'
           '\t\t:g [1,1]\n\t\t\t: C (C)\n\t\t\t: D (D)\n\t:g [0,2]\n\t\t: E (E)\n\t\t: F (F)\n</feature_tree>\n'
           '<constraints>\n\tC1: ~C or E\n</constraints>\n</feature_model>')
    cfgs, ids = configs(doc)
    assert sorted(ids) == list('ABCDEFR')
    # tree: A always; B optional with xor(C,D); E,F free: (1 + 2) * 4 = 12 ; clause ~C or E removes C&!E: 2
    assert len(cfgs) == 10, len(cfgs)
    for bad in (doc.replace('~C or E', '~C or Z'), doc.replace('\t\t\t: D (D)', '\t\t\t\t: D (D)')):
        try:
            configs(bad)
            raise AssertionError('accepted a malformed document')
        except SXFMError:
            pass
