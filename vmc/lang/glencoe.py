"""Independent reference emitter for Glencoe JSON feature models."""
from __future__ import annotations

import itertools
import json

from .. import sem
from .. import shadow as sh

CHOICES = {
    'ids': ('name', 'numbered', 'rotated'),   # feature ids equal to names / f1, f2, ... / the name of the next feature
    'table_order': ('preorder', 'reversed', 'sorted'),
    'children_order': ('as-is', 'reversed'),
    'nary': (2, 3, 4, 7),
    'note': ('', 'a note'),
    'key_order': (0, 1),                  # order of the top-level keys and of the keys of an entry
    'indent': (None, 2),
}
DEFAULT = {k: v[0] for k, v in CHOICES.items()}
TERM = {'NOT': 'NotTerm', 'AND': 'AndTerm', 'OR': 'OrTerm', 'XOR': 'XorTerm', 'IMPLIES': 'ImpliesTerm',
        'EXCLUDES': 'ExcludesTerm', 'EQUIVALENCE': 'EquivalentTerm', 'REQUIRES': 'ImpliesTerm'}


def all_choices():
    keys = list(CHOICES)
    for combo in itertools.product(*[CHOICES[k] for k in keys]):
        yield dict(zip(keys, combo))


def covering_choices():
    out = [dict(DEFAULT)]
    for k, vals in CHOICES.items():
        for v in vals[1:]:
            c = dict(DEFAULT)
            c[k] = v
            out.append(c)
    out.append({k: v[-1] for k, v in CHOICES.items()})
    return out


def in_fragment(m):
    for f in sh.features(m):
        kinds = [sem.kind(a, b, len(k)) for (a, b, k) in f[1]]
        if any(k is None for k in kinds):
            return False
        groups = [k for k in kinds if k not in ('mandatory', 'optional')]
        if len(groups) > 1 or (groups and 'optional' in kinds):
            return False
    return True


def emit(model, ch, unknown_term=False):
    feats = sh.features(model)
    ids = {f[0]: (f[0] if ch['ids'] == 'name' else 'f%d' % (i + 1)) for i, f in enumerate(feats)}
    if ch['ids'] == 'rotated':
        ids = {f[0]: feats[(i + 1) % len(feats)][0] for i, f in enumerate(feats)}
    own = {}
    for (p, a, b, ks) in sh.relations(model):
        for k in ks:
            own[k] = sem.kind(a, b, len(ks))
    table = []
    for f in feats:
        group = [(a, b, ks) for (a, b, ks) in f[1] if len(ks) > 1]
        entry = {'name': f[0], 'optional': own.get(f[0], 'mandatory') != 'mandatory', 'type': 'FEATURE', 'note': ch['note']}
        if group:
            a, b, ks = group[0]
            k = sem.kind(a, b, len(ks))
            if k == 'alternative':
                entry['type'] = 'XOR'
            elif k == 'or':
                entry['type'] = 'OR'
            else:
                entry['type'] = 'GENOR'
                entry['min'] = a
                entry['max'] = b
        if ch['key_order']:
            entry = dict(reversed(list(entry.items())))
        table.append((ids[f[0]], entry))
    if ch['table_order'] == 'reversed':
        table.reverse()
    elif ch['table_order'] == 'sorted':
        table.sort(key=lambda kv: kv[0])

    def tree(f):
        node = {'id': ids[f[0]]}
        kids = [k for (_a, _b, ks) in f[1] for k in ks]
        if ch['children_order'] == 'reversed':
            kids = list(reversed(kids))
        if kids:
            node['children'] = [tree(k) for k in kids]
        return node

    def term(t):
        if not isinstance(t, tuple):
            return {'type': 'FeatureTerm', 'operands': [ids[t]]}
        op = t[0]
        if op == 'NOT':
            return {'type': 'NotTerm', 'operands': [term(t[1])]}
        if op in ('AND', 'OR'):
            from .fide import _flatten
            return {'type': TERM[op], 'operands': [term(o) for o in _flatten(t, op, ch['nary'])]}
        return {'type': TERM[op], 'operands': [term(t[1]), term(t[2])]}
    ctcs = {n: term(t) for n, t in model[1]}
    if unknown_term:
        ctcs['weird'] = {'type': 'AtMostTerm', 'operands': [term(feats[0][0])]}
    doc = {'id': 'FM_ref', 'name': 'FM_ref', 'features': dict(table), 'tree': tree(model[0]), 'constraints': ctcs}
    if ch['key_order']:
        doc = dict(reversed(list(doc.items())))
    return json.dumps(doc, indent=ch['indent'], ensure_ascii=False)


def selftest():
    F, R, M = sh.F, sh.R, sh.M
    m = M(F('Fa', [R(1, 1, [F('Bb')]), R(1, 3, [F('Dc'), F('Ad'), F('Ee')])]), [('c1', ('OR', ('OR', 'Dc', 'Ad'), ('NOT', 'Bb', None)))])
    d = json.loads(emit(m, dict(DEFAULT, ids='numbered', nary=3)))
    assert d['features']['f1']['type'] == 'OR' and d['features']['f2']['optional'] is False and d['features']['f3']['optional'] is True
    assert [c['id'] for c in d['tree']['children']] == ['f2', 'f3', 'f4', 'f5']
    assert len(d['constraints']['c1']['operands']) == 3
