"""Independent interpreter of the propositional '.exp' formulas (Logic2BDD style): one formula
per line; connectives  not > and > or (XOR) > -> > <->, parentheses, identifiers."""
from __future__ import annotations

import itertools
import re


class ExpError(Exception):
    pass


TOKEN = re.compile(r'\s*(<->|->|\(|\)|"[^"]*"|[^\s()]+)')
KEYWORDS = {'not', 'and', 'or', '->', '<->', 'XOR', 'xor', '(', ')'}


def tokenize(line):
    pos = 0
    out = []
    line = line.rstrip()
    while pos < len(line):
        m = TOKEN.match(line, pos)
        if not m:
            raise ExpError('cannot tokenise %r' % line[pos:])
        out.append(m.group(1))
        pos = m.end()
    return out


class Parser:
    def __init__(self, toks):
        self.t = toks
        self.i = 0

    def peek(self):
        return self.t[self.i] if self.i < len(self.t) else None

    def eat(self, tok=None):
        cur = self.peek()
        if cur is None or (tok is not None and cur != tok):
            raise ExpError('expected %r, found %r' % (tok, cur))
        self.i += 1
        return cur

    def parse(self):
        e = self.iff()
        if self.peek() is not None:
            raise ExpError('trailing token %r' % self.peek())
        return e

    def iff(self):
        left = self.imp()
        while self.peek() == '<->':
            self.eat()
            left = ('EQUIVALENCE', left, self.imp())
        return left

    def imp(self):
        left = self.orx()
        if self.peek() == '->':
            self.eat()
            return ('IMPLIES', left, self.imp())
        return left

    def orx(self):
        left = self.andx()
        operands, pure_or = [left], True
        while self.peek() in ('or', 'XOR', 'xor'):
            op = self.eat()
            right = self.andx()
            pure_or = pure_or and op == 'or'
            operands.append(right)
            left = ('OR' if op == 'or' else 'XOR', left, right)
        if pure_or and len(operands) > FLAT_FROM:
            return ('ORN', tuple(operands), None)      # very long chain: kept flat (see ev)
        return left

    def andx(self):
        left = self.unary()
        operands = [left]
        while self.peek() == 'and':
            self.eat()
            right = self.unary()
            operands.append(right)
            left = ('AND', left, right)
        if len(operands) > FLAT_FROM:
            return ('ANDN', tuple(operands), None)
        return left

    def unary(self):
        if self.peek() == 'not':
            self.eat()
            return ('NOT', self.unary(), None)
        if self.peek() == '(':
            self.eat('(')
            e = self.iff()
            self.eat(')')
            return e
        tok = self.eat()
        if tok in KEYWORDS:
            raise ExpError('operator %r where an identifier is expected' % tok)
        if tok.startswith('"') and tok.endswith('"') and len(tok) >= 2:
            tok = tok[1:-1]
        return tok


FLAT_FROM = 200     # chains of more operands than this are represented n-ary (a left-nested tuple would exhaust the stack)


def ev(tree, sel):
    """sem.ev plus the flat n-ary nodes of very long and / or chains."""
    from .. import sem
    if isinstance(tree, tuple) and tree[0] == 'ORN':
        return any(ev(t, sel) for t in tree[1])
    if isinstance(tree, tuple) and tree[0] == 'ANDN':
        return all(ev(t, sel) for t in tree[1])
    if isinstance(tree, tuple):
        op, left, right = tree
        if op == 'NOT':
            return not ev(left, sel)
        a, b = ev(left, sel), ev(right, sel)
        return {'AND': a and b, 'OR': a or b, 'XOR': a != b, 'IMPLIES': (not a) or b, 'EQUIVALENCE': a == b}[op]
    return sem.ev(tree, sel)


def parse_lines(text):
    return [Parser(tokenize(l)).parse() for l in text.split('\n') if l.strip()]


def idents(tree, acc):
    if isinstance(tree, tuple) and tree[0] in ('ORN', 'ANDN'):
        for t in tree[1]:
            idents(t, acc)
    elif isinstance(tree, tuple):
        idents(tree[1], acc)
        if tree[2] is not None:
            idents(tree[2], acc)
    else:
        acc.add(tree)


def configs(text, universe):
    from .. import sem as _sem
    with _sem.deep_recursion():
        return _configs(text, universe)


def _configs(text, universe):
    """Selections over `universe` satisfying every formula; identifiers outside the universe
    make the export uninterpretable."""
    from .. import sem
    forms = parse_lines(text)
    used = set()
    for f in forms:
        idents(f, used)
    unknown = used - set(universe)
    if unknown:
        raise ExpError('unknown identifiers %s' % sorted(unknown))
    out = set()
    names = list(universe)
    for bits in itertools.product((False, True), repeat=len(names)):
        sel = {n for n, b in zip(names, bits) if b}
        if all(ev(f, sel) for f in forms):
            out.add(frozenset(sel))
    return out, used


def selftest():
    cfgs, used = configs('R\nR <-> A\nB -> R\nR <-> (C or D)\nnot C or not (D and B)', ['R', 'A', 'B', 'C', 'D'])
    # R, A forced; C or D; not C or not(D and B): (B,C,D) in {C},{D},{C,D},{B,C},{B,D},{B,C,D}minus C&D&B -> 5
    assert len(cfgs) == 5, len(cfgs)
    assert Parser(tokenize('a -> b -> c')).parse() == ('IMPLIES', 'a', ('IMPLIES', 'b', 'c'))
    assert Parser(tokenize('not a and b or c')).parse() == ('OR', ('AND', ('NOT', 'a', None), 'b'), 'c')
    for bad in ('a LogicConnective.AND b', 'notb and a', 'a and'):
        try:
            configs(bad, ['a', 'b'])
            raise AssertionError('accepted %r' % bad)
        except ExpError:
            pass
