"""Sub-process worker of C12: serialise a fixed battery with one writer in *this* interpreter's
environment (hash seed, locale, default encoding) and print one digest per model.

usage: python -m vmc.envworker <writer> <battery-size>"""
import hashlib
import json
import locale
import logging
import os
import sys
import tempfile


def main():
    logging.disable(logging.CRITICAL)
    sys.stderr = open(os.devnull, 'w')
    writer = sys.argv[1]
    size = sys.argv[2]
    order = sys.argv[3] if len(sys.argv) > 3 else 'forward'
    from vmc import build as bd
    from vmc.props import c12
    battery = c12.env_battery(size)
    tmp = tempfile.mkdtemp(prefix='vmcenv_', dir='/dev/shm' if os.path.isdir('/dev/shm') else None)
    indices = list(range(len(battery)))
    if order == 'reverse':
        indices.reverse()
    elif order == 'interleaved':
        indices = indices[::2] + indices[1::2]
    digests = {}
    out = {'digests': [], 'readback': [], 'probe_order': None, 'encoding': locale.getpreferredencoding(False),
           'hashseed': os.environ.get('PYTHONHASHSEED')}
    try:
        for i in indices:
            model = battery[i]
            path = os.path.join(tmp, 'f%d' % i)
            try:
                fm = bd.build(model)
                ret = c12.WRITERS[writer](path, fm).transform()
                data = open(path, 'rb').read()
                retb = ret if isinstance(ret, bytes) else ret.encode('utf8')
                digests[i] = [hashlib.sha256(data).hexdigest()[:16], hashlib.sha256(retb).hexdigest()[:16]]
            except Exception as exc:  # noqa: BLE001
                digests[i] = ['raises:' + type(exc).__name__, '']
                continue
            reader = c12.READERS.get(writer)
            if reader is not None and c12.readable(writer, model):
                try:
                    fm2 = reader(path).transform()
                    names = sorted(f.name for f in fm2.get_features())
                    out['readback'].append([i, hashlib.sha256(repr(names).encode('utf8')).hexdigest()[:16]])
                except Exception as exc:  # noqa: BLE001
                    out['readback'].append([i, 'raises:' + type(exc).__name__])
        out['digests'] = [digests[i] for i in range(len(battery))]
        out['readback'].sort()
        probe = set(n for m in battery for n in [f[0] for f in __import__('vmc.shadow', fromlist=['x']).features(m)])
        out['probe_order'] = hashlib.sha256(repr(list(probe)).encode('utf8')).hexdigest()[:12]
    finally:
        import shutil
        shutil.rmtree(tmp, ignore_errors=True)
    sys.stdout.write(json.dumps(out))


if __name__ == '__main__':
    main()
