"""Shadow (reference) feature models: plain nested tuples, hashable, boring.

SFeature = (name, rels, abstract, ftype, fcard, attrs)
  rels  = tuple of (cmin, cmax, children)      children = tuple of SFeature
  ftype = 'Boolean' | 'Integer' | 'Real' | 'String'
  fcard = (min, max)
  attrs = tuple of (name, value)   value: JSON-like python object frozen by `freeze`
SModel = (root, ctcs)     ctcs = tuple of (name, tree)
tree   = term | (OP, left, right)   with right None for NOT / one-arg aggregates
term   = str (feature / attribute reference, or a string literal written with
         single quotes: "'txt'"), int, float

The same shapes are produced by `vmc.build.observe` from the real objects, so
shadow == observe(build(shadow)) is the conformance relation.
"""
from __future__ import annotations

LOGICAL = ('NOT', 'AND', 'OR', 'XOR', 'IMPLIES', 'EQUIVALENCE', 'REQUIRES', 'EXCLUDES')
BINARY_LOGICAL = LOGICAL[1:]
COMPARISON = ('EQUALS', 'LOWER', 'GREATER', 'LOWER_EQUALS', 'GREATER_EQUALS', 'NOT_EQUALS')
ARITH = ('ADD', 'SUB', 'MUL', 'DIV')
AGGREGATE = ('SUM', 'AVG', 'LEN', 'FLOOR', 'CEIL')

DEFAULT_FCARD = (1, 1)


def F(name, rels=(), abstract=False, ftype='Boolean', fcard=DEFAULT_FCARD, attrs=()):
    return (name, tuple(rels), abstract, ftype, tuple(fcard), tuple(attrs))


def R(cmin, cmax, children):
    return (cmin, cmax, tuple(children))


def M(root, ctcs=()):
    return (root, tuple(ctcs))


def deep_equal(a, b):
    """Structural equality of nested tuples without recursion (chains of hundreds of levels)."""
    stack = [(a, b)]
    while stack:
        x, y = stack.pop()
        if isinstance(x, tuple) and isinstance(y, tuple):
            if len(x) != len(y):
                return False
            stack.extend(zip(x, y))
        elif type(x) is not type(y) or x != y:
            return False
    return True


def freeze(v):
    """JSON-like value -> hashable, type-strict form."""
    if isinstance(v, list):
        return ('list',) + tuple(freeze(x) for x in v)
    if isinstance(v, dict):
        return ('dict',) + tuple((freeze(k), freeze(x)) for k, x in v.items())
    if v is None or isinstance(v, (bool, int, float, str)):
        return (type(v).__name__, v)
    if isinstance(v, tuple) and v and v[0] in ('list', 'dict', 'NoneType', 'bool', 'int', 'float',
                                                'str', 'obj'):
        return v
    return ('obj', type(v).__name__, str(v))


def thaw(v):
    kind = v[0]
    if kind == 'list':
        return [thaw(x) for x in v[1:]]
    if kind == 'dict':
        return {thaw(k): thaw(x) for k, x in v[1:]}
    if kind == 'obj':
        raise ValueError('cannot thaw foreign object %r' % (v,))
    return v[1]


# --------------------------------------------------------------------------- walking

def features(model_or_feature):
    """Preorder list of SFeatures (relation order, child order)."""
    root = model_or_feature[0] if _is_model(model_or_feature) else model_or_feature
    out = []

    def rec(f):
        out.append(f)
        for (_a, _b, kids) in f[1]:
            for k in kids:
                rec(k)
    rec(root)
    return out


def _is_model(x):
    return len(x) == 2 and isinstance(x[0], tuple) and len(x[0]) == 6


def names(model):
    return [f[0] for f in features(model)]


def parent_map(model):
    """name -> parent name (None for root)."""
    pm = {model[0][0]: None}

    def rec(f):
        for (_a, _b, kids) in f[1]:
            for k in kids:
                pm[k[0]] = f[0]
                rec(k)
    rec(model[0])
    return pm


def relations(model):
    """Preorder list of (parent_name, cmin, cmax, (child names...)) in the order
    FeatureModel.get_relations() is documented to walk (relation, then its children)."""
    out = []

    def rec(f):
        for (a, b, kids) in f[1]:
            out.append((f[0], a, b, tuple(k[0] for k in kids)))
            for k in kids:
                rec(k)
    rec(model[0])
    return out


def size(model):
    return len(features(model))


def tree_names(tree):
    """Feature/attribute reference names in a constraint tree, in left-to-right order."""
    out = []

    def rec(t):
        if t is None:
            return
        if isinstance(t, tuple):
            rec(t[1])
            rec(t[2])
        elif isinstance(t, str) and not t.startswith("'"):
            out.append(t)
    rec(tree)
    return out


def tree_ops(tree):
    out = []

    def rec(t):
        if isinstance(t, tuple):
            out.append(t[0])
            rec(t[1])
            rec(t[2])
    rec(tree)
    return out


def tree_depth(tree):
    if not isinstance(tree, tuple):
        return 0
    return 1 + max(tree_depth(tree[1]), tree_depth(tree[2]) if tree[2] is not None else 0)


# --------------------------------------------------------------------------- notation

def _nm(name):
    s = str(name)
    return s if s.replace('_', 'a').isalnum() and s.isascii() else repr(name)


def tree_str(t):
    if t is None:
        return '_'
    if isinstance(t, tuple):
        return '%s(%s,%s)' % (t[0], tree_str(t[1]), tree_str(t[2])) if t[2] is not None \
            else '%s(%s)' % (t[0], tree_str(t[1]))
    if isinstance(t, str):
        return _nm(t) if not t.startswith("'") else t
    return repr(t)


def feature_str(f):
    name, rels, abstract, ftype, fcard, attrs = f
    s = _nm(name)
    if abstract is not False:
        s += '!a' if abstract is True else '!a=%r' % (abstract,)
    if ftype != 'Boolean':
        s += ':%s' % ftype
    if tuple(fcard) != DEFAULT_FCARD:
        s += '#%s..%s' % tuple(fcard)
    if attrs:
        s += '@{' + ','.join('%s=%s' % (_nm(n), _val_str(v)) for n, v in attrs) + '}'
    if rels:
        s += '(' + ''.join('[%s,%s:%s]' % (a, b, ' '.join(feature_str(k) for k in kids))
                           for (a, b, kids) in rels) + ')'
    return s


def _val_str(v):
    try:
        return repr(thaw(v))
    except Exception:  # noqa: BLE001
        return repr(v)


def model_str(m):
    n = size(m)
    if n > 150:
        import hashlib
        return '<model of %d features, root %s, %d relations, digest %s>' % (
            n, _nm(m[0][0]), len(relations(m)), hashlib.sha1(repr(m).encode('utf8', 'backslashreplace')).hexdigest()[:10])
    s = feature_str(m[0])
    if m[1]:
        s += ' ; ' + ' ; '.join('%s: %s' % (_nm(n), tree_str(t)) for n, t in m[1])
    return s


# --------------------------------------------------------------------------- reductions

def _clamp(a, b, s):
    if b == -1:
        return (min(a, s), -1)
    b2 = min(b, s)
    return (min(a, b2), b2)


def _replace_feature(f, path, fn):
    """Return a copy of feature f where the sub-feature at `path` (list of (ri, ci)) is
    replaced by fn(sub); fn may return None to delete it (relation shrinks / disappears)."""
    if not path:
        return fn(f)
    (ri, ci), rest = path[0], path[1:]
    name, rels, abstract, ftype, fcard, attrs = f
    a, b, kids = rels[ri]
    new_kid = _replace_feature(kids[ci], rest, fn)
    if new_kid is None:
        kids2 = kids[:ci] + kids[ci + 1:]
        if kids2:
            a2, b2 = _clamp(a, b, len(kids2))
            rels2 = rels[:ri] + ((a2, b2, kids2),) + rels[ri + 1:]
        else:
            rels2 = rels[:ri] + rels[ri + 1:]
    else:
        kids2 = kids[:ci] + (new_kid,) + kids[ci + 1:]
        rels2 = rels[:ri] + ((a, b, kids2),) + rels[ri + 1:]
    return (name, rels2, abstract, ftype, fcard, attrs)


def _paths(f, prefix=()):
    yield prefix, f
    for ri, (_a, _b, kids) in enumerate(f[1]):
        for ci, k in enumerate(kids):
            yield from _paths(k, prefix + ((ri, ci),))


def subtrees(tree):
    if isinstance(tree, tuple):
        for sub in (tree[1], tree[2]):
            if sub is not None:
                yield sub


def reductions(model, pool=None):
    """Reductions with pool names re-assigned in preorder (canonical witnesses)."""
    seen = set()
    for m in _reductions(model):
        if pool is not None:
            m = normalize_names(m, pool)
        if m not in seen and m != model:
            seen.add(m)
            yield m


def normalize_names(model, pool):
    """Re-assign pool names in preorder to the features that carry pool names; other
    (deliberately special) names are kept.  Constraint references follow."""
    poolset = set(pool)
    feats = features(model)
    special = set(f[0] for f in feats if f[0] not in poolset)
    free = iter([p for p in pool if p not in special])
    mapping = {}
    for f in feats:
        if f[0] in poolset:
            mapping[f[0]] = next(free)
    if all(k == v for k, v in mapping.items()):
        return model

    def ren_f(f):
        return (mapping.get(f[0], f[0]), tuple((a, b, tuple(ren_f(k) for k in kids)) for (a, b, kids) in f[1]),
                f[2], f[3], f[4], f[5])

    def ren_t(t):
        if t is None:
            return None
        if isinstance(t, tuple):
            return (t[0], ren_t(t[1]), ren_t(t[2]))
        if isinstance(t, str) and not t.startswith("'"):
            head, dot, rest = t.partition('.')
            if head in mapping:
                return mapping[head] + dot + rest
        return t
    return (ren_f(model[0]), tuple((n, ren_t(t)) for n, t in model[1]))


def _reductions(model):
    """One-step reductions of a model: each is a strictly 'smaller' model.  Used only to
    attribute a failure to minimal witnesses; nothing about verdicts depends on it."""
    root, ctcs = model
    used = set()
    for _n, t in ctcs:
        used.update(x.split('.')[0] for x in tree_names(t))
    seen = set()

    def emit(m):
        if m not in seen and m != model:
            seen.add(m)
            return True
        return False

    # hoist: the sub-model rooted at a direct child of the root
    for (_a, _b, kids) in root[1]:
        for k in kids:
            sub_names = set(f[0] for f in features(k))
            if used <= sub_names:
                m = (k, ctcs)
                if emit(m):
                    yield m
    # rename a specially named feature to a plain one
    all_names = [f[0] for f in features(model)]
    for nm in all_names:
        if not (isinstance(nm, str) and nm.isalnum() and nm.isascii() and len(nm) == 2 and nm[0].isupper() and nm[1].islower()):
            plain = next((p for p in ('Fa', 'Bb', 'Dc', 'Ad', 'Ee', 'Cf', 'Gg', 'Ah', 'Zi', 'Bj', 'Mk', 'Cl', 'Xx', 'Yy') if p not in all_names), None)
            if plain is None:
                break       # more specially named features than plain names: shrink the model first
            m = _rename_everywhere(model, nm, plain)
            if emit(m):
                yield m
    # drop a constraint / replace a constraint by a sub-tree
    for i, (n, t) in enumerate(ctcs):
        m = (root, ctcs[:i] + ctcs[i + 1:])
        if emit(m):
            yield m
        fnames = [f[0] for f in features(model)][-2:]
        for sub in tree_reductions(t, tuple(fnames)):
            m = (root, ctcs[:i] + ((n, sub),) + ctcs[i + 1:])
            if emit(m):
                yield m
    for path, f in _paths(root):
        name, rels, abstract, ftype, fcard, attrs = f
        # remove a leaf (not referenced by a constraint, not the root)
        if path and not rels and name not in used:
            m = (_replace_feature(root, list(path), lambda _f: None), ctcs)
            if emit(m):
                yield m
        # reset decorations
        if abstract is not False:
            m = (_replace_feature(root, list(path), lambda g: (g[0], g[1], False, g[3], g[4], g[5])), ctcs)
            if emit(m):
                yield m
        if ftype != 'Boolean':
            m = (_replace_feature(root, list(path), lambda g: (g[0], g[1], g[2], 'Boolean', g[4], g[5])), ctcs)
            if emit(m):
                yield m
        if tuple(fcard) != DEFAULT_FCARD:
            m = (_replace_feature(root, list(path), lambda g: (g[0], g[1], g[2], g[3], DEFAULT_FCARD, g[5])), ctcs)
            if emit(m):
                yield m
        for ai in range(len(attrs)):
            m = (_replace_feature(root, list(path),
                                  lambda g, ai=ai: (g[0], g[1], g[2], g[3], g[4], g[5][:ai] + g[5][ai + 1:])), ctcs)
            if emit(m):
                yield m


def tree_reductions(t, variables=('x', 'y', 'z')):
    """Trees obtained by replacing one internal node by one of its operands or by a variable."""
    if not isinstance(t, tuple):
        return
    op, left, right = t
    for sub in (left, right):
        if sub is not None:
            yield sub
    for v in variables:
        yield v
    for r in tree_reductions(left, variables):
        yield (op, r, right)
    if right is not None:
        for r in tree_reductions(right, variables):
            yield (op, left, r)


def tree_normalize_vars(t, order=('x', 'y', 'z', 'u', 'v', 'w')):
    """Rename variables by first occurrence (left to right) to x, y, z, ..."""
    mapping = {}
    for n in tree_names(t):
        head = n.split('.')[0]
        if head not in mapping:
            mapping[head] = order[len(mapping)]

    def ren(u):
        if u is None:
            return None
        if isinstance(u, tuple):
            return (u[0], ren(u[1]), ren(u[2]))
        if isinstance(u, str) and not u.startswith("'"):
            head, dot, rest = u.partition('.')
            return mapping[head] + dot + rest
        return u
    return ren(t)


def _rename_everywhere(model, old, new):
    def ren_f(f):
        return (new if f[0] == old else f[0], tuple((a, b, tuple(ren_f(k) for k in kids)) for (a, b, kids) in f[1]),
                f[2], f[3], f[4], f[5])

    def ren_t(t):
        if t is None:
            return None
        if isinstance(t, tuple):
            return (t[0], ren_t(t[1]), ren_t(t[2]))
        return new if t == old else t
    return (ren_f(model[0]), tuple((n, ren_t(t)) for n, t in model[1]))
