"""Depth-2 histories across the whole library (driver H), added on top of every property module.

A property module enumerates *cases*; its oracle `check(case)` is a pure function of the case as
long as the library keeps no state between calls.  This wrapper adds, for every property, the
executions in which something else happened in the same interpreter before the case is judged:

  ('XH', (pid2, cases2), sentinels)   run the cases `cases2` of property `pid2` (any of the twenty:
                                     every reader, writer, operation and model query of the library
                                     is driven by one of them), then judge the sentinel cases of
                                     this property;
  ('XP', kind, sentinel)             run this property's own driver on every ill-formed variant of
                                     the sentinel of the given kind (a call that raises half-way),
                                     then judge the unchanged sentinel.

Each such history runs in a forked child of the worker, so nothing leaks into the cases explored
afterwards, and the sentinel is judged before the prefix as well: only clauses that fail after the
prefix and did not fail before it are reported (clause prefix 'after:').  On a library without
state kept between calls the two verdicts are identical by construction.
"""
from __future__ import annotations

import itertools
import os
import pickle
import signal
import traceback

from . import shadow as sh

SCAN = None               # cases of a module scanned for picks (quick tier enumeration order)
RATIO = {'quick': 1.6, 'thorough': 1.25}
BATCH = 24                # cases per polluting batch
MAX_SENTINELS = {'quick': 40, 'thorough': 90}      # sentinels of the ill-formed-variant histories
DAG_BASES = {'quick': 4, 'thorough': 12}          # sentinel trees carrying the shared-sub-expression constraints
XH_SENTINELS = {'quick': 16, 'thorough': 60}       # sentinels judged after every batch
POISON_KINDS = ('int-name', 'none-name', 'alien-str', 'alien-none', 'bad-ctc', 'bad-attr', 'unwritable')
ALL_PIDS = ['C%02d' % i for i in range(1, 21)]
SKIP_KINDS = ('ENV', 'HUGE', 'CORPUS', 'B', 'DC', 'MB', 'CL', 'WG', 'A', 'WIDE', 'MR', 'CP', 'CN', 'XT', 'ST', 'RL')     # expensive single cases (big models, sub-processes)


# ----------------------------------------------------------------------------- isolation

def isolated(fn, seconds=120):
    """Run fn() in a forked child and return its (picklable) result; exceptions of fn are re-raised
    as RuntimeError carrying the child's traceback."""
    r, w = os.pipe()
    pid = os.fork()
    if pid == 0:
        code = 0
        try:
            os.close(r)
            signal.setitimer(signal.ITIMER_REAL, 0)
            signal.signal(signal.SIGALRM, signal.SIG_DFL)
            signal.alarm(int(seconds))
            try:
                res = ('ok', fn())
            except BaseException:  # noqa: BLE001
                res = ('exc', traceback.format_exc())
            try:
                data = pickle.dumps(res)
            except Exception:  # noqa: BLE001
                data = pickle.dumps(('exc', 'unpicklable result: ' + traceback.format_exc()))
            with os.fdopen(w, 'wb') as fh:
                fh.write(data)
        except BaseException:  # noqa: BLE001
            code = 3
        finally:
            os._exit(code)
    os.close(w)
    chunks = []
    try:
        with os.fdopen(r, 'rb') as fh:
            while True:
                b = fh.read(1 << 16)
                if not b:
                    break
                chunks.append(b)
    except BaseException:
        try:
            os.kill(pid, signal.SIGKILL)
        except OSError:
            pass
        os.waitpid(pid, 0)
        raise
    os.waitpid(pid, 0)
    data = b''.join(chunks)
    if not data:
        from .engine import CaseTimeout
        raise CaseTimeout()
    kind, val = pickle.loads(data)
    if kind == 'exc':
        raise RuntimeError('history child failed:\n' + val)
    return val


# ----------------------------------------------------------------------------- picks

def _geometric(ratio):
    i, x = 0, 0.0
    while True:
        yield i
        x = max(x * ratio, x + 1)
        i = int(x)


def picks(mod, tier, limit=SCAN):
    """Deterministic selection of cases of a module: per case kind, the cases at geometrically
    spaced positions of the quick enumeration (small states first, so every size is met)."""
    skip = tuple(getattr(mod, 'HIST_SKIP_KINDS', ())) + SKIP_KINDS
    per_kind = {}
    counters = {}
    nexts = {}
    gens = {}
    for case in itertools.islice(mod.cases('quick', 0), limit):
        k = case[0]
        if k in skip:
            continue
        if k not in gens:
            gens[k] = _geometric(RATIO[tier])
            nexts[k] = next(gens[k])
            counters[k] = 0
            per_kind[k] = []
        if counters[k] == nexts[k]:
            per_kind[k].append(case)
            nexts[k] = next(gens[k])
        counters[k] += 1
    for extra in getattr(mod, 'HIST_EXTRA', lambda: ())():
        per_kind.setdefault(extra[0], []).append(extra)
    return per_kind


def picks_of(arg):
    """(pid, tier) -> interleaved picks of that property module (runs in a pool worker)."""
    from . import engine
    pid, tier = arg
    return _interleave(picks(engine.load_module(pid), tier))


def _interleave(per_kind):
    out = []
    lists = [list(v) for _k, v in sorted(per_kind.items())]
    for tup in itertools.zip_longest(*lists):
        out.extend(c for c in tup if c is not None)
    return out


# ----------------------------------------------------------------------------- poisons

def _repeats(frozen):
    """Does a frozen attribute value contain two equal non-empty containers?"""
    seen = set()

    def walk(v):
        if isinstance(v, tuple) and v and v[0] in ('list', 'dict') and len(v) > 1:
            if v in seen:
                return True
            seen.add(v)
            return any(walk(x) for x in v[1:])
        if isinstance(v, tuple):
            return any(walk(x) for x in v)
        return False
    return walk(frozen)


def _is_model(x):
    return (isinstance(x, tuple) and len(x) == 2 and isinstance(x[0], tuple) and len(x[0]) == 6
            and isinstance(x[1], tuple))


def model_index(case):
    for i in range(1, min(len(case), 4)):
        if _is_model(case[i]):
            return i
    return None


def poisoned(case, kind):
    """Ill-formed variants of a model case (same kind tag, same extra fields)."""
    mi = model_index(case)
    if mi is None:
        return
    for c in _poisoned(('_', case[mi]), kind):
        yield tuple(case[:mi]) + (c[1],) + tuple(case[mi + 1:])


def _poisoned(case, kind):
    model = case[1]
    rest = tuple(case[2:])
    if kind in ('int-name', 'none-name'):
        bad = 42 if kind == 'int-name' else None
        for path, _f in sh._paths(model[0]):
            def fn(g, bad=bad):
                return (bad, g[1], g[2], g[3], g[4], g[5])
            yield (case[0], (sh._replace_feature(model[0], list(path), fn), model[1])) + rest
    elif kind in ('alien-str', 'alien-none'):
        marker = '__ALIEN_STR__' if kind == 'alien-str' else '__ALIEN_NONE__'
        for path, _f in sh._paths(model[0]):
            if path:
                def fn3(g, marker=marker):
                    return (marker, (), g[2], g[3], g[4], g[5])
                yield (case[0], (sh._replace_feature(model[0], list(path), fn3), model[1])) + rest
    elif kind == 'bad-ctc':
        first = model[0][0]
        for t in (('SUM', first, None), ('ADD', first, 3), ('AND', first, None), ('NOT', None, None),
                  ('IMPLIES', ('LEN', first, None), 3)):
            yield (case[0], (model[0], model[1] + (('c_bad', t),))) + rest
    elif kind == 'bad-attr':
        for path, _f in sh._paths(model[0]):
            def fn2(g):
                return (g[0], g[1], g[2], g[3], g[4], g[5] + (('att', 1j),))
            yield (case[0], (sh._replace_feature(model[0], list(path), fn2), model[1])) + rest
    elif kind == 'unwritable':
        yield case


# ----------------------------------------------------------------------------- wrapper

class HistProp:
    """Wraps a property module; everything not overridden is delegated."""

    def __init__(self, mod):
        self._mod = mod
        self.ID = mod.ID
        self._cache = {}

    def __getattr__(self, name):
        return getattr(self._mod, name)

    # -- enumeration
    def cases(self, tier, seed):
        for c in self._mod.cases(tier, seed):
            yield c
            # every state with an attribute value that contains two equal containers is also built with
            # ONE shared container object in both places
            if len(c) == 2 and _is_model(c[1]) and any(f[5] and any(_repeats(av) for (_an, av) in f[5]) for f in sh.features(c[1])):
                yield ('XD', c)
        yield from self.history_cases(tier)

    def history_cases(self, tier):
        pending = getattr(self, 'picks_async', None)
        if pending is not None:
            # computed by the pool while the ordinary cases ran; this generator runs in the pool's task
            # thread, so it must not wait for ever once the run is being stopped
            import multiprocessing as mp
            while True:
                try:
                    res = pending.get(timeout=0.5)
                    break
                except mp.TimeoutError:
                    if getattr(self, 'stopping', False):
                        return
            allpicks = dict(zip(ALL_PIDS, res))
        else:
            allpicks = {p: picks_of((p, tier)) for p in ALL_PIDS}
        sentinels = tuple(allpicks[self.ID][:MAX_SENTINELS[tier]])
        if not sentinels:
            return
        step = max(1, len(sentinels) // XH_SENTINELS[tier])
        after_batch = sentinels[::step][:XH_SENTINELS[tier]]
        for pid2 in ALL_PIDS:
            pol = allpicks[pid2]
            for i in range(0, len(pol), BATCH):
                yield ('XH', (pid2, tuple(pol[i:i + BATCH])), after_batch)
        for s in sentinels:
            if model_index(s) is not None:
                for kind in POISON_KINDS:
                    yield ('XP', kind, s)
        # the same final object graph reached by other construction orders (incremental add_child; attributes
        # first, children appended to the relation's list, constraints appended after the model exists)
        for s in sentinels:
            if model_index(s) is not None:
                for route in ('B', 'C', 'D'):
                    yield ('XB', route, s)
        # constraints whose expression graph shares sub-expression objects, on the sentinel trees
        if getattr(self._mod, 'HIST_DAG', True):
            from .props import common as cm
            seen = set()
            bases = []
            for s in sentinels:
                if len(s) == 2 and _is_model(s[1]) and s[1][1] and sh.size(s[1]) >= 3 and s[1][0] not in seen:
                    seen.add(s[1][0])
                    bases.append(s)
            for s in bases[:DAG_BASES[tier]]:
                for t in cm.dag_trees():
                    yield ('XD', (s[0], cm.with_ctc((s[1][0], ()), t)))

    def plan(self, tier):
        p = dict(self._mod.plan(tier)) if hasattr(self._mod, 'plan') else {}
        p['bounds'] = (p.get('bounds', '') + '; histories of depth 2: batches of <=%d picked cases of each of the 20 '
                       'property drivers (geometric picks, ratio %s, per case kind) followed by <=%d sentinel cases of this '
                       'property; ill-formed variants %s of every model sentinel followed by the sentinel; %d constraint trees with a '
                       'repeated operator sub-tree built as shared Node objects on <=%d sentinel trees'
                       % (BATCH, RATIO[tier], XH_SENTINELS[tier], list(POISON_KINDS), 66, DAG_BASES[tier]))
        p['rule'] = (p.get('rule', '') + '; history cases run in a forked child, the sentinels are judged before and after the '
                     'prefix and any clause failing only afterwards is a violation')
        return p

    # -- oracle
    def check(self, case):
        if case[0] == 'XH':
            before = self._before(case[2])
            return isolated(lambda: self._run_h(case, before))
        if case[0] == 'XP':
            before = self._before((case[2],))
            return isolated(lambda: self._run_hp(case, before))
        if case[0] == 'XB':
            from . import build as bd
            from .engine import Fail
            base = self._before((case[2],))[0]        # what the ordinary route gives (known findings included)
            bd.ROUTE['default'] = case[1]
            try:
                fails = self._mod.check(case[2])
            finally:
                bd.ROUTE['default'] = 'A'
            return [Fail('construction-route-%s:%s' % (case[1], f.clause), f.detail) for f in fails if f.clause not in base]
        if case[0] == 'XD':
            from . import build as bd
            from .engine import Fail
            base = self._before((case[1],))[0]        # the same expression built as a tree
            bd.SHARE['on'] = True
            try:
                fails = self._mod.check(case[1])
            finally:
                bd.SHARE['on'] = False
            return [Fail('shared-subexpressions:' + f.clause, f.detail) for f in fails if f.clause not in base]
        return self._mod.check(case)

    def _before(self, sentinels):
        """Verdicts of the sentinels in this process before any prefix (cached per process: the
        forked children never change the state of the process they were forked from)."""
        from .engine import case_key
        out = []
        for s in sentinels:
            k = case_key(s)
            if k not in self._cache:
                self._cache[k] = self._judge([s])[0]
            out.append(self._cache[k])
        return out

    def _judge(self, sentinels):
        from . import engine
        out = []
        for s in sentinels:
            engine.trace_begin()
            try:
                clauses = set(f.clause for f in self._mod.check(s))
            except Exception as exc:  # noqa: BLE001
                clauses = {'oracle-raises:%s' % type(exc).__name__}
            digest = engine.trace_end()
            if digest:
                # what the library produced for this case (texts, results): as a pseudo-clause, so that a
                # different product after the prefix shows up in the set difference
                clauses.add('produces-something-else-than-before[%s]' % digest)
            out.append(frozenset(clauses))
        return out

    def _diff(self, before, after, sentinels, what):
        from .engine import Fail
        fails = []
        seen = set()
        for s, b, a in zip(sentinels, before, after):
            for clause in sorted(a - b):
                if clause.startswith('produces-something-else-than-before['):
                    clause = 'produces-something-else-than-before'
                if clause in seen:
                    continue
                seen.add(clause)
                fails.append(Fail('after:' + clause, {'history': what, 'then': self._mod.describe(s)[:300]}))
        return fails

    def _run_h(self, case, before):
        from . import engine
        _tag, (pid2, pol), sentinels = case
        mod2 = engine.load_module(pid2)
        for c in pol:
            try:
                mod2.check(c)
            except Exception:  # noqa: BLE001
                pass
            engine.tick()
        after = self._judge(sentinels)
        return self._diff(before, after, sentinels, '%d cases of the %s driver' % (len(pol), pid2))

    def _run_hp(self, case, before):
        from . import engine
        _tag, kind, s = case
        if kind == 'unwritable':
            engine._TMP['broken'] = True
        try:
            for v in poisoned(s, kind):
                try:
                    self._mod.check(v)
                except Exception:  # noqa: BLE001
                    pass
                engine.tick()
        finally:
            engine._TMP.pop('broken', None)
        after = self._judge([s])
        return self._diff(before, after, [s], 'ill-formed variants (%s) of the same case' % kind)

    # -- presentation
    def describe(self, case):
        if case[0] == 'XH':
            _tag, (pid2, pol), sentinels = case
            mod2 = _load(pid2)
            return 'XH:%s[%s] ; then %s' % (pid2, ' ; '.join(mod2.describe(c)[:160] for c in pol[:3]) + (' ; ...(%d)' % len(pol) if len(pol) > 3 else ''),
                                           ' ; '.join(self._mod.describe(s)[:160] for s in sentinels[:2]) + (' ; ...(%d)' % len(sentinels) if len(sentinels) > 2 else ''))
        if case[0] == 'XP':
            return 'XP:%s of %s' % (case[1], self._mod.describe(case[2]))
        if case[0] == 'XD':
            return 'XD:%s' % self._mod.describe(case[1])
        if case[0] == 'XB':
            return 'XB:route %s of %s' % (case[1], self._mod.describe(case[2]))
        return self._mod.describe(case)

    def reduce(self, case):
        if case[0] == 'XH':
            _tag, (pid2, pol), sentinels = case
            if len(sentinels) > 1:
                for s in sentinels:
                    yield ('XH', (pid2, pol), (s,))
                return
            if len(pol) > 1:
                half = len(pol) // 2
                yield ('XH', (pid2, pol[:half]), sentinels)
                yield ('XH', (pid2, pol[half:]), sentinels)
                if len(pol) <= 6:
                    for i in range(len(pol)):
                        yield ('XH', (pid2, pol[:i] + pol[i + 1:]), sentinels)
            return
        if case[0] == 'XP':
            red = getattr(self._mod, 'reduce', None)
            if red is not None:
                for r in red(case[2]):
                    if model_index(r) is not None:
                        yield ('XP', case[1], r)
            return
        if case[0] == 'XD':
            red = getattr(self._mod, 'reduce', None)
            if red is not None:
                for r in red(case[1]):
                    yield ('XD', r)
            return
        if case[0] == 'XB':
            red = getattr(self._mod, 'reduce', None)
            if red is not None:
                for r in red(case[2]):
                    if model_index(r) is not None:
                        yield ('XB', case[1], r)
            return
        red = getattr(self._mod, 'reduce', None)
        if red is not None:
            yield from red(case)

    def normalize(self, case):
        if case[0] in ('XH',):
            return case
        norm = getattr(self._mod, 'normalize', None)
        if case[0] == 'XP':
            return ('XP', case[1], norm(case[2])) if norm is not None else case
        if case[0] == 'XD':
            return ('XD', norm(case[1])) if norm is not None else case
        if case[0] == 'XB':
            return ('XB', case[1], norm(case[2])) if norm is not None else case
        return norm(case) if norm is not None else case

    def nontrivial(self, case):
        if case[0] in ('XH', 'XP', 'XD', 'XB'):
            return True
        nt = getattr(self._mod, 'nontrivial', None)
        return True if nt is None else nt(case)

    def outcome(self, case):
        if case[0] in ('XH', 'XP', 'XD', 'XB'):
            return 'history'
        oc = getattr(self._mod, 'outcome', None)
        return 'n/a' if oc is None else oc(case)


def _load(pid):
    from . import engine
    return engine.load_module(pid)
