"""python -m vmc.run --property C13 --tier quick"""
import argparse
import os
import sys


def main():
    ap = argparse.ArgumentParser()
    ap.add_argument('--property', required=True)
    ap.add_argument('--tier', default=os.environ.get('VERIF_TIER', 'quick'), choices=['quick', 'thorough'])
    ap.add_argument('--jobs', type=int, default=None)
    ap.add_argument('--time-cap', type=float, default=None)
    args = ap.parse_args()
    # pin the hash seed for this process tree (only C12 varies it, in sub-processes)
    if os.environ.get('PYTHONHASHSEED') != '0':
        env = dict(os.environ, PYTHONHASHSEED='0')
        os.execve(sys.executable, [sys.executable, '-m', 'vmc.run'] + sys.argv[1:], env)
    import logging
    logging.disable(logging.CRITICAL)
    seed = int(os.environ.get('VERIF_SEED', '0') or 0)
    from vmc import engine
    import flamapy.metamodels.fm_metamodel as fmm
    repo = os.environ.get('VERIF_REPO', '/repo')
    where = os.path.realpath(list(fmm.__path__)[0])
    if not where.startswith(os.path.realpath(repo) + os.sep):
        sys.stdout.write('MACHINERY-ERROR fm_metamodel imported from %s, expected under %s\n' % (where, repo))
        sys.exit(2)
    rc = engine.run_property(args.property.upper(), args.tier, seed, jobs=args.jobs, time_cap=args.time_cap)
    sys.exit(rc)


if __name__ == '__main__':
    main()
