"""Oracle self-tests run by MANIFEST.setup_cmd (exit 2 when the machinery is broken)."""
import sys


def main():
    try:
        from vmc import sem, space
        sem.selftest()
        for n, want in ((1, 1), (2, 3), (3, 24), (4, 235), (5, 2571)):
            got = sum(1 for _ in space.structures(n))
            assert got == want == space.count_structures(n), (n, got, want)
        assert space.count_trees(2, 3) == 33399 == len(space.trees(2, ['x', 'y', 'z']))
        import importlib
        import pkgutil
        import vmc.props as props
        for mod in pkgutil.iter_modules(props.__path__):
            m = importlib.import_module('vmc.props.' + mod.name)
            if hasattr(m, 'selftest') and hasattr(m, 'ID'):
                m.selftest()
    except Exception:  # noqa: BLE001
        import traceback
        traceback.print_exc()
        sys.exit(2)
    print('vmc selftest ok')


if __name__ == '__main__':
    main()
