"""Regenerate /verif/MANIFEST.json from the table below (python3 tools/mkmanifest.py)."""
import json
import os

HERE = os.path.dirname(os.path.dirname(os.path.abspath(__file__)))
ALL = ['C%02d' % i for i in range(1, 21)]

# id -> (technique, level text, level note, design ref)
CHECKS = {
    'C13': ('explicit-state enumeration of the complete structure space (<=5 / <=7 features, all cardinalities) and structure x constraint-tree space on the real operation, against a brute-force configuration enumerator',
            'Every feature tree up to the bound (closed-form count checked) is built through the public constructors and the real operation is run on it; the result is compared with an independent brute-force count over all 2^n selections. Exhaustive within the bound, not sampled.',
            'Trusts vmc.sem (brute-force semantics, cross-checked against a closed form on every state), CPython and flamapy.core as installed. Models larger than the bound are not covered.', '3 C13'),
    'C14': ('explicit-state enumeration of the complete structure space and structure x constraint-tree space on the real operation, against the brute-force always-selected set',
            'Every feature tree up to the bound, alone and with each constraint tree of the K sets, is analysed by the real operation; soundness (subset of the intersection of all configurations) and, without constraints, completeness are checked on every state.',
            'Trusts vmc.sem. Models larger than the bound are not covered.', '3 C14'),
    'C15': ('explicit-state enumeration of the complete structure space and structure x constraint-tree space on the real operation, against brute-force co-selection',
            'Partition, co-selection over all configurations and the mandatory-chain clause are checked on every state up to the bound.',
            'Trusts vmc.sem. Models larger than the bound are not covered.', '3 C15'),
    'C03': ('explicit-state enumeration of the complete structure space (<=6 / <=7 features), typed-feature products and constraint lists, built through two construction routes, every public query compared with a shadow model',
            'Every tree shape x relation partition x cardinality up to the bound is built by the constructor route and by the incremental add_child route; all listing, lookup, parent/child, classification and filtered-listing queries are compared with the shadow reference model in every state.',
            'Trusts the reference classification vmc.sem.kind and the restated constraint kinds. One known finding ([0..0] single-child relation has no class).', '3 C03'),
    'C18': ('exhaustive enumeration of all constraint expression trees of depth<=2 (8 operators, 2 / 3 names) plus depth-3 spines and an arithmetic/aggregate alphabet on real Constraint objects; equivalences decided by complete truth tables',
            'Every tree up to the bound is turned into a real Constraint; every predicate, the left/right extraction and split_constraint run on it; soundness is decided by complete truth tables, and the AST is snapshotted (structure and node identity) before and after.',
            'Trusts vmc.sem.ev (the XOR / EQUIVALENCE defects of flamapy.core simplify_formula found by this check are repaired in /repo, see KNOWN_FINDINGS.txt).', '3 C18'),
    'C16': ('explicit-state enumeration of the complete structure space, parametric families and a complete sweep of the shipped corpus, six real operations against definitions evaluated on the shadow tree / an independent XML walker',
            'Every tree up to the bound (incl. the root-only model), chains/wide groups/combs/binary trees beyond it, and every shipped FaMa/Betty file are analysed by the six operations; each result is compared with the definition computed on the shadow; ancestors for every feature.',
            'Trusts vmc.lang.fama (independent ElementTree walker) for corpus files. Random larger models are replaced by deterministic families.', '3 C16'),
    'C17': ('explicit-state enumeration of structure x abstract-flag x constraint spaces, all metric-filter subsets up to size 2 and all execution histories up to length 3 on one FMMetrics object, against definitions on the shadow',
            'Every state: the report is total, has the 40 names once each, size/ratio rules and the split identities hold, each metric equals its definition on the shadow and the stand-alone operations; filters and object reuse are enumerated exhaustively within the bound.',
            'Trusts the metric table (names, reference listings) restated from the property; logical constraints only, as the property quantifies.', '3 C17'),
    'C19': ('explicit-state exploration of operation-object histories (length<=3 over a 32-model alphabet, 10 operations, all ordered operation pairs) and deviation-bounded stateless exploration of every random choice sequence of attribute generation through a choice-point controller',
            'After every step of every history the result must equal a fresh object\'s result and the deep model snapshot must be unchanged; random.choice/randint/uniform inside the generator are replaced by a controller whose every answer sequence (up to 3/4 non-default answers) is executed; prefix replay divergence is a hard error.',
            'Assumes the module attribute `random` of fm_generate_random_attribute is the only randomness; menus for randint/uniform are boundary/middle representatives, not all values.', '3 C19'),
    'C20': ('explicit-state enumeration of the structure space x constraint lists; for each state every permutation of children/relations/constraints (independent rebuild) and every single-point edit, checked against the eq/hash contract',
            'Every model up to the bound is compared with every order-permuted independent rebuild (must be equal, hashes equal, usable in sets) and with every single edit (must be unequal); element-level contracts for Feature, Relation, Constraint.',
            'Permutation products above 720 fall back to all adjacent transpositions plus the full reversal (reported in the evidence).', '3 C20'),
    'C05': ('explicit-state enumeration of the JSON fragment of the structure space, deviation-bounded decorations (names, abstract, attribute values) and constraint trees; write/read/write/read cycles on the real writer and reader compared with the shadow',
            'Every state up to the bound is written and read back; the read-back model is compared field by field (type-strict) with the source shadow, constraints by truth table, the second and third generations must be fix-points, parse_json must agree with the file reader.',
            'Order-insensitive tree comparison; names by class representatives (not all of Unicode).', '3 C05'),
    'C07': ('explicit-state enumeration of the FeatureIDE fragment, deviation-bounded names/abstract flags, constraint lists of length 0-2 (all trees of depth<=2 without XOR, incl. a single literal); write/read cycles on the real writer and reader',
            'Every state up to the bound round-trips through FeatureIDEWriter/Reader; names, tree, abstract flags, one-to-one constraint equivalence and generation fix-points are checked; bytes returned == file.',
            'Two known findings (TAB / newline in names are mangled by minidom).', '3 C07'),
    'C08': ('explicit-state enumeration of the Glencoe fragment, deviation-bounded names, constraint trees of depth<=2 incl. XOR/EXCLUDES; write/read cycles on the real writer and reader',
            'Every state up to the bound round-trips through GlencoeWriter/Reader; names, order-insensitive tree, constraint count, name-matched equivalence and generation fix-points are checked.',
            'Order-insensitive comparison because the writer sorts by name.', '3 C08'),
    'C01': ('explicit-state enumeration of the structure space incl. [a..*], deviation-bounded decorations (names of every admitted class, abstract, types, feature cardinalities, every attribute value kind) and constraint trees (logical depth<=2, arithmetic/aggregate alphabet); write/read cycles through the real UVL writer and ANTLR reader compared with the shadow',
            'Every state up to the bound is written as UVL and parsed back; the read-back model is compared field by field with the source shadow (type-strict attribute values, constraints by truth table / structure), and the following generations must be fix-points of model and text.',
            'UVL parsing costs 11 ms, so bounds are one size smaller than for the other formats; names by class representatives; [n..*] may come back as -1 or as the number of children.', '3 C01'),
    'C06': ('explicit-state enumeration of the AFM fragment, deviation-bounded WORD names and attribute declarations (ranges, enumerations, default/null), all constraint trees of depth<=2 without XOR plus depth-3 spines; write/read cycles through the real AFM writer and ANTLR reader',
            'Every state up to the bound round-trips through AFMWriter/AFMReader; names, tree, attributes (ranges as ints) and one-to-one constraint equivalence (which is what catches lost parentheses) and generation fix-points are checked.',
            'Attribute elements/default/null are compared as token text, the representation the AFM reader defines.', '3 C06'),
    'C10': ('explicit-state enumeration of the structure space x constraint trees; each SPLOT / propositional export is executed as a program by an independent interpreter over all 2^n selections and compared with brute-force configurations',
            'Every Boolean model up to the bound (six relation kinds, several relations per parent, constraint trees over all eight operators) is exported; an independent SXFM interpreter and an independent .exp interpreter enumerate the satisfying selections of the export, which must equal the model\'s configurations; missing features and uninterpretable output are violations.',
            'Trusts vmc.lang.sxfm / vmc.lang.plexp (golden self-tests at start-up) and the stated operator precedence; XOR is accepted as a connective of the propositional format.', '3 C10'),
    'C11': ('explicit-state enumeration of the Clafer fragment x constraint trees and deviation-bounded attributes/names; the export is executed by an independent interpreter of the emitted Clafer subset over all 2^n selections',
            'Every model of the fragment up to the bound is exported; the interpreter enumerates the instances of the feature hierarchy under Clafer group/cardinality semantics, which must equal the model\'s configurations; identifier consistency of features and attributes, attribute types and operator translation are checked on every state.',
            'Trusts vmc.lang.clafer (golden self-test); reserved words / leading digits as names are outside the property and not generated.', '3 C11'),
    'C02': ('explicit-state enumeration of every reader-produced model in the bounded spaces of C01/C04-C09 (library-written documents, independently emitted documents, corpus files); identity-level tree invariant and AST shape invariant evaluated in every state',
            'Every model returned by any of the six readers within the bounds is walked by object identity: parent pointers, relation back-references, attribute owners, operand positions of every AST node, get_features() against the names written in the source constraint, traversability.',
            'Reuses the case spaces and emitters of C01, C04-C09 (same trusted base); only the invariant is evaluated here.', '3 C02'),
    'C04': ('exhaustive enumeration of reference models x all 768 combinations of surface-syntax choices of an independent UVL reference emitter (plus 8 classes of documents invalid by construction), executed on the real ANTLR-based reader',
            'Documents are generated from a reference model by vmc.lang.uvl (never by the library writer); for every combination of surface choices the reader result must equal the reference model; invalid documents must raise.',
            'Trusts the reference emitter (golden self-test; token rules checked against the generated lexer). Arithmetic is emitted fully parenthesised.', '3 C04'),
    'C09': ('exhaustive enumeration of reference models x syntactic freedoms of four independent reference emitters (FeatureIDE, FaMa XML, AFM, Glencoe), must-raise documents, and a complete sweep of the finite shipped corpus against an independent XML walker and the Betty .statistics ground truth',
            'Each reader is run on documents it did not write: every reference model of the fragment under the covering set (all combinations on rich models) of the format\'s freedoms; the result must equal the reference model; unrepresentable constructs must raise; all corpus files must agree with the independent walker and with Betty\'s statistics.',
            'Trusts the four emitters and the walker (golden self-tests); where a format is silent both readings are accepted.', '3 C09'),
    'C12': ('explicit-state enumeration of models x 8 writers with deep snapshots and repeated calls, plus exhaustive enumeration of an environment configuration matrix (PYTHONHASHSEED x locale / default-encoding settings) in fresh interpreter processes compared by digest',
            'In-process: snapshot (shadow form + AST node identities) before/after every transform(), three consecutive calls and an independently rebuilt copy give identical bytes, returned value == file. Cross-process: every (model, writer) digest of every configuration must equal the reference process; non-ASCII names must survive write -> read in every configuration.',
            'Hash seed / locale cannot be intercepted in-process, so they are enumerated as configurations (3 seeds x 2 locales quick, 16 x 4 thorough); only the locales on the image are available.', '3 C12'),
}

REASON_TODO = 'check not built yet in this session; planned in DESIGN.md section 3 (model checking applies)'


def main():
    checks = []
    for pid in ALL:
        if pid not in CHECKS:
            continue
        tech, text, note, ref = CHECKS[pid]
        tech += ('; plus, for every property, exhaustive depth-2 histories (vmc.hist): batches of picked cases of each of the twenty '
                 'drivers, and every ill-formed variant of a sentinel, followed by sentinel cases of this property in a forked child; '
                 'constraint graphs with shared Node objects and attribute values with shared containers; three alternative '
                 'construction orders of every sentinel model; object-reuse histories of readers, writers and operations; for the '
                 'operations (C13-C15, C19) every schedule of two overlapping executions with one preemption (vmc.sched)')
        text += (' Histories: the sentinel cases are judged before and after every prefix (verdict and recorded outputs must not change); '
                 'see DESIGN.md 7.3b.')
        checks.append({
            'property_id': pid,
            'quick_cmd': '/venv/bin/python -m vmc.run --property %s --tier quick' % pid,
            'thorough_cmd': '/venv/bin/python -m vmc.run --property %s --tier thorough' % pid,
            'evidence_file': '/verif/evidence/%s.json' % pid,
            'replay_cmd_template': '/venv/bin/python -m vmc.replay {path}',
            'engine': 'vmc',
            'level_claimed': {'category': 'model_checking', 'text': text, 'design_ref': 'DESIGN.md ' + ref},
            'level_note': note,
            'technique': tech,
        })
    manifest = {
        'version': 1,
        'setup_cmd': '/venv/bin/python -m compileall -q vmc && /venv/bin/python -m vmc.selftest',
        'hooks': {
            'guard': 'FLAMAPY_FM_METAMODEL_VERIF',
            'enable': 'no source hooks are needed: every observation goes through public attributes; checks import /repo through the editable install in /venv',
            'baseline_off_cmd': 'cd /repo && /venv/bin/python -m pytest -ra -q -p no:cacheprovider --timeout=900 --continue-on-collection-errors',
            'source_commits': [],
            'add_only': True,
        },
        'engines': [{'name': 'vmc', 'path': '/verif/vmc', 'serves_properties': sorted(CHECKS),
                     'kind_free_text': 'hand-written explicit-state explorer for the Python implementation: exhaustive enumeration of bounded model/constraint/history spaces, shadow reference model, brute-force semantics, minimal-witness attribution'}],
        'checks': checks,
        'not_applicable': [{'property_id': pid, 'reason': REASON_TODO} for pid in ALL if pid not in CHECKS],
        'notes': 'Known genuine defects that are not repaired are listed in /verif/KNOWN_FINDINGS.txt; repaired ones are fix: commits in /repo, listed there as fixed: lines.',
    }
    with open(os.path.join(HERE, 'MANIFEST.json'), 'w') as fh:
        json.dump(manifest, fh, indent=1)
    print('wrote MANIFEST.json with %d checks, %d not_applicable' % (len(checks), len(manifest['not_applicable'])))


if __name__ == '__main__':
    main()
