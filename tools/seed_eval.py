#!/venv/bin/python
"""tools/seed_eval.py <seed_dir> [--props C01,C02,...] [--tier quick]

Confirms a seeded change (patch.diff + demo.py) in a scratch worktree of /repo and runs the
registered checks against it.  Prints a JSON summary; never touches /repo's working tree."""
import argparse
import json
import os
import shutil
import subprocess
import sys
import tempfile

ALL = ['C%02d' % i for i in range(1, 21)]


def run(cmd, cwd, env=None, timeout=3600):
    p = subprocess.run(cmd, cwd=cwd, env=env, stdout=subprocess.PIPE, stderr=subprocess.STDOUT, timeout=timeout)
    return p.returncode, p.stdout.decode('utf8', 'replace')


def main():
    ap = argparse.ArgumentParser()
    ap.add_argument('seed_dir')
    ap.add_argument('--props', default=','.join(ALL))
    ap.add_argument('--tier', default='quick')
    args = ap.parse_args()
    sd = os.path.abspath(args.seed_dir)
    patch = os.path.join(sd, 'patch.diff')
    demo = os.path.join(sd, 'demo.py')
    wt = tempfile.mkdtemp(prefix='wt_seed_', dir='/tmp')
    os.rmdir(wt)
    res = {'seed': sd}
    try:
        rc, out = run(['git', '-C', '/repo', 'worktree', 'add', '-q', wt, 'HEAD'], '/')
        assert rc == 0, out
        env = dict(os.environ, PYTHONPATH=wt)
        env.pop('VERIF_REPO', None)
        rc, out = run(['/venv/bin/python', demo], wt, env, 600)
        res['demo_clean_rc'] = rc
        rc, out = run(['git', '-C', wt, 'apply', patch], '/')
        res['patch_applies'] = rc == 0
        if rc != 0:
            res['apply_error'] = out[-300:]
            return res
        rc, out = run(['/venv/bin/python', '-m', 'pytest', '-q', '-p', 'no:cacheprovider'], wt, env, 1200)
        res['pytest_tail'] = out.strip().split('\n')[-1]
        res['pytest_ok'] = rc == 0 and '144 passed' in out
        rc, out = run(['/venv/bin/python', demo], wt, env, 600)
        res['demo_mutant_rc'] = rc
        res['demo_mutant_tail'] = out.strip()[-300:]
        caught = {}
        ev = tempfile.mkdtemp(prefix='ev_seed_')
        rp = tempfile.mkdtemp(prefix='rp_seed_')
        cenv = dict(os.environ, VERIF_REPO=wt, PYTHONPATH=wt, VERIF_EVIDENCE_DIR=ev, VERIF_REPLAY_DIR=rp)
        for pid in args.props.split(','):
            rc, out = run(['/venv/bin/python', '-m', 'vmc.run', '--property', pid, '--tier', args.tier], '/verif', cenv, 7200)
            nv = sum(1 for l in out.split('\n') if l.startswith('VIOLATION'))
            entry = {'rc': rc, 'violations': nv}
            if nv:
                wit = []
                d = os.path.join(rp, pid)
                for f in sorted(os.listdir(d))[:3] if os.path.isdir(d) else []:
                    r = json.load(open(os.path.join(d, f)))
                    wit.append('%s | %s' % (r['clause'], r['witness'][:140]))
                entry['witnesses'] = wit
            if rc not in (0, 1):
                entry['tail'] = out[-400:]
            caught[pid] = entry
        shutil.rmtree(ev, ignore_errors=True)
        shutil.rmtree(rp, ignore_errors=True)
        res['checks'] = caught
        res['caught_by'] = [p for p, e in caught.items() if e['rc'] == 1]
        res['errors'] = [p for p, e in caught.items() if e['rc'] not in (0, 1)]
    finally:
        run(['git', '-C', '/repo', 'worktree', 'remove', '--force', wt], '/')
    return res


if __name__ == '__main__':
    r = main()
    print(json.dumps(r, indent=1, ensure_ascii=False))
