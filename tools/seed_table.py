#!/venv/bin/python
"""Regenerate the table of seeded changes in DESIGN.md (between the SEED-TABLE markers) from seeded/*/meta.json."""
import glob
import json
import re

rows = []
for f in sorted(glob.glob('/verif/seeded/*/meta.json')):
    m = json.load(open(f))
    notes = m.get('needs_to_manifest', '')
    first = ''
    for line in notes.split('\n'):
        line = line.strip(' #*-')
        if len(line) > 25:
            first = line
            break
    first = re.sub(r'\s+', ' ', first)[:170].replace('|', '/')
    own = m['breaks_property'] in m['caught_by']
    rows.append('| %s | %s | %s | %s |' % (m['id'], first, ', '.join(m['caught_by']) or '**none**',
                                           ('yes' if own else 'no') + (' (after strengthening)' if m.get('caught_by_later') else '')))
table = ['| seeded change | what it does / needs (first line of its notes) | reported by (quick tier) | by its own property\'s check |',
         '|---|---|---|---|'] + rows
text = open('/verif/DESIGN.md', encoding='utf8').read()
a, b = '<!-- SEED-TABLE-BEGIN -->', '<!-- SEED-TABLE-END -->'
if a in text:
    text = text[:text.index(a) + len(a)] + '\n' + '\n'.join(table) + '\n' + text[text.index(b):]
    open('/verif/DESIGN.md', 'w', encoding='utf8').write(text)
print(len(rows), 'rows')
