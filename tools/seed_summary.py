#!/venv/bin/python
"""Summarise /tmp/seed_out/*/m*/eval.json (or seeded/*/eval.json)."""
import glob
import json
import sys
base = sys.argv[1] if len(sys.argv) > 1 else '/tmp/seed_out'
for f in sorted(glob.glob(base + '/C*/m*/eval.json') + glob.glob(base + '/*/eval.json')):
    try:
        r = json.load(open(f))
    except Exception as exc:  # noqa: BLE001
        print(f, 'UNREADABLE', str(exc)[:80])
        continue
    tag = '/'.join(f.split('/')[-3:-1])
    ok = r.get('demo_clean_rc') == 0 and r.get('pytest_ok') and r.get('demo_mutant_rc') not in (0, None)
    print('%-10s valid=%s caught_by=%s errors=%s' % (tag, ok, ','.join(r.get('caught_by', [])), ','.join(r.get('errors', []))))
    if not ok:
        print('     demo_clean=%s pytest=%s demo_mut=%s applies=%s' % (r.get('demo_clean_rc'), r.get('pytest_tail'), r.get('demo_mutant_rc'), r.get('patch_applies')))
