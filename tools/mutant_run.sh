#!/bin/sh
# tools/mutant_run.sh <patch.diff> <tier> <prop> [<prop>...]
# Applies a patch to a scratch worktree of /repo (never to /repo itself), runs the given checks
# against it, prints one line per check, removes the worktree.  Evidence/replays go to /tmp.
patch="$1"; tier="$2"; shift 2
wt=/tmp/wt_mut_$$
git -C /repo worktree add -q "$wt" HEAD || exit 3
if ! git -C "$wt" apply "$patch"; then echo "PATCH DOES NOT APPLY"; git -C /repo worktree remove --force "$wt"; exit 3; fi
cd /verif
for p in "$@"; do
  out=$(VERIF_REPO="$wt" PYTHONPATH="$wt" VERIF_EVIDENCE_DIR=/tmp/ev_mut_$$ VERIF_REPLAY_DIR=/tmp/rp_mut_$$ /venv/bin/python -m vmc.run --property "$p" --tier "$tier" 2>&1)
  rc=$?
  nv=$(echo "$out" | grep -c '^VIOLATION')
  echo "$p rc=$rc violations=$nv $(echo "$out" | grep -v '^VIOLATION\|^KNOWN' | tail -1 | cut -c1-150)"
  if [ -n "$SHOW" ] && [ "$nv" -gt 0 ]; then
    for f in $(ls /tmp/rp_mut_$$/$p/*.json 2>/dev/null | head -${SHOW}); do /venv/bin/python -c "
import json; r=json.load(open('$f')); print('   ', r['clause'], '|', r['witness'][:120], '|', str(r['detail'])[:160])"; done
  fi
done
rm -rf /tmp/ev_mut_$$ /tmp/rp_mut_$$
git -C /repo worktree remove --force "$wt"
