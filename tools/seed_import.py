#!/venv/bin/python
"""Copy confirmed seeded changes from /tmp/seed_out/<prop>/m<i> into /verif/seeded/<prop>-m<i>/ with meta.json."""
import glob
import json
import os
import shutil
import sys

src = sys.argv[1] if len(sys.argv) > 1 else '/tmp/seed_out'
for d in sorted(glob.glob(src + '/C*/m*')):
    ev = os.path.join(d, 'eval.json')
    if not os.path.exists(ev):
        continue
    r = json.load(open(ev))
    ok = r.get('demo_clean_rc') == 0 and r.get('pytest_ok') and r.get('demo_mutant_rc') not in (0, None)
    if not ok:
        print('SKIP (not confirmed)', d)
        continue
    prop = os.path.basename(os.path.dirname(d))
    sid = '%s-%s' % (prop, os.path.basename(d))
    dst = os.path.join('/verif/seeded', sid)
    os.makedirs(dst, exist_ok=True)
    shutil.copy(os.path.join(d, 'patch.diff'), dst)
    shutil.copy(os.path.join(d, 'demo.py'), dst)
    notes = open(os.path.join(d, 'notes.md'), encoding='utf8').read() if os.path.exists(os.path.join(d, 'notes.md')) else ''
    old = {}
    if os.path.exists(os.path.join(dst, 'meta.json')):
        old = json.load(open(os.path.join(dst, 'meta.json')))
    meta = {
        'id': sid,
        'breaks_property': prop,
        'source': 'written by an independent sub-agent that was given only the property text and a scratch worktree',
        'needs_to_manifest': notes.strip()[:1500],
        'confirmed': {
            'patch_applies_to_repo_HEAD': r.get('patch_applies'),
            'pinned_suite_with_change': r.get('pytest_tail'),
            'demo_exit_code_clean_tree': r.get('demo_clean_rc'),
            'demo_exit_code_with_change': r.get('demo_mutant_rc'),
            'how': 'tools/seed_eval.py in a scratch worktree of /repo (git worktree add; git apply; pytest; demo.py; checks with VERIF_REPO=<worktree>)',
        },
        'checks_run_quick': {p: ('VIOLATION' if e['rc'] == 1 else 'pass' if e['rc'] == 0 else 'error rc=%s' % e['rc'])
                             for p, e in r.get('checks', {}).items()},
        'caught_by': sorted(set(r.get('caught_by', [])) | set(old.get('caught_by_later', []))),
        'example_witnesses': {p: e.get('witnesses', [])[:2] for p, e in r.get('checks', {}).items() if e.get('witnesses')},
    }
    if old.get('caught_by_later'):
        meta['caught_by_later'] = old['caught_by_later']
    before = os.path.join(d, 'eval_before.json')
    if os.path.exists(before):
        rb = json.load(open(before))
        meta['first_evaluation'] = {'note': 'quick tier of the same checks as they were before this wave was read',
                                    'caught_by': sorted(rb.get('caught_by', []))}
        later = sorted(set(meta['caught_by']) - set(rb.get('caught_by', [])))
        if later:
            meta['caught_by_later'] = later
    if old.get('history'):
        meta['history'] = old['history']
    json.dump(meta, open(os.path.join(dst, 'meta.json'), 'w'), indent=1, ensure_ascii=False)
    print(sid, 'caught_by', ','.join(meta['caught_by']))
