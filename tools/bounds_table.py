#!/venv/bin/python
"""Regenerate the 'bounds actually run' table of DESIGN.md from evidence files.
usage: tools/bounds_table.py [thorough-evidence-dir]"""
import glob
import json
import os
import sys

quick = {}
for f in sorted(glob.glob('/verif/evidence/C*.json')):
    e = json.load(open(f))
    quick[e['property_id']] = e
thor = {}
if len(sys.argv) > 1:
    for f in sorted(glob.glob(os.path.join(sys.argv[1], 'C*.json'))):
        e = json.load(open(f))
        if e['tier'] == 'thorough':
            thor[e['property_id']] = e
rows = ['| id | bounds of the quick tier (from the check\'s own plan) | quick: states / transitions / wall | thorough: states / transitions / wall |',
        '|----|----|----|----|']
for pid in sorted(quick):
    q = quick[pid]
    c = q['coverage']
    t = thor.get(pid)
    tcell = '%s / %s / %ss' % (t['coverage']['states'], t['coverage']['transitions'], round(t['wall_s'])) if t else 'see evidence of a thorough run'
    bounds = c.get('bounds', '').split('; histories of depth 2')[0]       # the common suffix (driver H) is described once above the table
    rows.append('| %s | %s | %s / %s / %ss | %s |' % (pid, bounds.replace('|', '/'), c['states'], c['transitions'], round(q['wall_s']), tcell))
text = open('/verif/DESIGN.md', encoding='utf8').read()
a, b = '<!-- BOUNDS-TABLE-BEGIN -->', '<!-- BOUNDS-TABLE-END -->'
text = text[:text.index(a) + len(a)] + '\n' + '\n'.join(rows) + '\n' + text[text.index(b):]
open('/verif/DESIGN.md', 'w', encoding='utf8').write(text)
print(len(rows) - 2, 'rows')
